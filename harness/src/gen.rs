//! Case generators, one per property. Every random choice comes from one xorshift PRNG.
use crate::ops::case_line;
use crate::wire::*;
use crate::E;
use biodivine_boolean_functions::bdd::Bdd;
use biodivine_boolean_functions::expressions::{Expression, ExpressionNode};
use biodivine_boolean_functions::table::TruthTable;
use biodivine_boolean_functions::traits::{BooleanFunction, Equality, Implication};
use std::collections::{BTreeMap, BTreeSet};
use std::io::Write;

pub struct Rng(pub u64);
impl Rng {
    pub fn new(seed: u64) -> Self {
        Rng(seed.wrapping_mul(0x9E3779B97F4A7C15) ^ 0xD1B54A32D192ED03 | 1)
    }
    pub fn next(&mut self) -> u64 {
        let mut x = self.0;
        x ^= x >> 12;
        x ^= x << 25;
        x ^= x >> 27;
        self.0 = x;
        x.wrapping_mul(0x2545F4914F6CDD1D)
    }
    pub fn below(&mut self, n: usize) -> usize {
        if n == 0 {
            0
        } else {
            (self.next() % n as u64) as usize
        }
    }
    pub fn coin(&mut self) -> bool {
        self.next() & 1 == 1
    }
    pub fn pick<'a, X>(&mut self, xs: &'a [X]) -> &'a X {
        &xs[self.below(xs.len())]
    }
}

pub struct Ctx {
    pub out: std::io::BufWriter<std::io::Stdout>,
    pub rng: Rng,
    pub thorough: bool,
    pub scale: usize,
    pub count: usize,
}

impl Ctx {
    pub fn emit(&mut self, prop: &str, op: &str, args: &[Arg], nt: bool) -> String {
        let line = case_line(prop, op, args, nt);
        if line.len() > 60_000 {
            // oversized case (expression blow-up): not sent to the driver, counted as skipped
            writeln!(self.out, "# skipped oversized {} {}", prop, op).unwrap();
            return String::new();
        }
        writeln!(self.out, "{}", line).unwrap();
        self.count += 1;
        // the implementation's answer, for chaining
        let ans = line.split(" => ").nth(1).unwrap_or("").to_string();
        ans.rsplit_once(" ;").map(|x| x.0.to_string()).unwrap_or(ans)
    }
}

pub fn s(x: &str) -> String {
    x.to_string()
}
pub fn names(xs: &[&str]) -> Vec<String> {
    xs.iter().map(|x| x.to_string()).collect()
}
pub fn lit(n: &str) -> E {
    ExpressionNode::Literal(n.to_string()).into()
}
pub fn cst(b: bool) -> E {
    ExpressionNode::Constant(b).into()
}
pub fn not(e: E) -> E {
    ExpressionNode::Not(e).into()
}
pub fn and(es: Vec<E>) -> E {
    ExpressionNode::And(es).into()
}
pub fn or(es: Vec<E>) -> E {
    ExpressionNode::Or(es).into()
}

/// all truth tables over `n` variables (as bit vectors), in numeric order
pub fn all_functions(n: usize) -> Vec<Vec<bool>> {
    let rows = 1usize << n;
    (0..(1u64 << rows))
        .map(|code| (0..rows).map(|r| (code >> (rows - 1 - r)) & 1 == 1).collect())
        .collect()
}

pub fn essential_count(bits: &[bool], n: usize) -> usize {
    (0..n)
        .filter(|k| {
            let mask = 1usize << (n - 1 - k);
            (0..bits.len()).any(|r| r & mask == 0 && bits[r] != bits[r | mask])
        })
        .count()
}
pub fn is_constant(bits: &[bool]) -> bool {
    bits.iter().all(|b| *b) || bits.iter().all(|b| !*b)
}

/// kind: 0 = expression, 1 = table, 2 = BDD
pub fn fn_as(kind: usize, ns: &[String], bits: &[bool]) -> Val {
    match kind {
        0 => Val::E(expr_of_bits(ns, bits)),
        1 => Val::T(TruthTable::verif_from_raw(ns.to_vec(), bits.to_vec())),
        _ => Val::B(bdd_of_bits(ns, bits)),
    }
}

/// (sorted names, truth table) of a value, computed with the implementation (statistics only)
pub fn bits_of(v: &Val) -> (Vec<String>, Vec<bool>) {
    match v {
        Val::E(e) => {
            let t = TruthTable::from(e);
            let (i, o) = t.verif_raw();
            (i.to_vec(), o.to_vec())
        }
        Val::T(t) => {
            let (i, o) = t.verif_raw();
            (i.to_vec(), o.to_vec())
        }
        Val::B(b) => (b.verif_raw_inputs().to_vec(), b.image().collect()),
    }
}

pub fn subsets<X: Clone>(xs: &[X]) -> Vec<Vec<X>> {
    (0..(1usize << xs.len()))
        .map(|m| xs.iter().enumerate().filter(|(i, _)| m >> i & 1 == 1).map(|(_, x)| x.clone()).collect())
        .collect()
}

/// every partial assignment of the given names (3^n)
pub fn partial_assignments(ns: &[String]) -> Vec<BTreeMap<String, bool>> {
    let mut out = vec![BTreeMap::new()];
    for n in ns {
        let mut next = vec![];
        for m in &out {
            next.push(m.clone());
            for b in [false, true] {
                let mut m2 = m.clone();
                m2.insert(n.clone(), b);
                next.push(m2);
            }
        }
        out = next;
    }
    out
}

/// all expression trees with exactly `size` nodes
pub fn trees_of_size(size: usize, leaves: &[E], max_arity: usize, min_arity: usize, memo: &mut Vec<Vec<E>>) -> Vec<E> {
    if size < memo.len() {
        return memo[size].clone();
    }
    while memo.len() <= size {
        let sz = memo.len();
        let mut out: Vec<E> = vec![];
        if sz == 1 {
            out.extend(leaves.iter().cloned());
        }
        if sz >= 1 {
            if sz >= 2 {
                for e in memo[sz - 1].clone() {
                    out.push(not(e));
                }
            }
            // n-ary nodes with k children whose sizes sum to sz - 1
            for k in min_arity..=max_arity {
                if k == 0 {
                    if sz == 1 {
                        out.push(and(vec![]));
                        out.push(or(vec![]));
                    }
                    continue;
                }
                if sz < 1 + k {
                    continue;
                }
                let mut parts: Vec<Vec<usize>> = vec![];
                compositions(sz - 1, k, &mut vec![], &mut parts);
                for comp in parts {
                    let mut combos: Vec<Vec<E>> = vec![vec![]];
                    for part in comp {
                        let mut next = vec![];
                        for c in &combos {
                            for e in &memo[part] {
                                let mut c2 = c.clone();
                                c2.push(e.clone());
                                next.push(c2);
                            }
                        }
                        combos = next;
                    }
                    for c in combos {
                        out.push(and(c.clone()));
                        out.push(or(c));
                    }
                }
            }
        }
        memo.push(out);
    }
    memo[size].clone()
}

fn compositions(total: usize, k: usize, cur: &mut Vec<usize>, out: &mut Vec<Vec<usize>>) {
    if k == 0 {
        if total == 0 {
            out.push(cur.clone());
        }
        return;
    }
    for first in 1..=total {
        if total - first < k - 1 {
            break;
        }
        cur.push(first);
        compositions(total - first, k - 1, cur, out);
        cur.pop();
    }
}

pub fn trees_up_to(size: usize, leaves: &[E], max_arity: usize, min_arity: usize) -> Vec<E> {
    let mut memo: Vec<Vec<E>> = vec![vec![]];
    let mut all = vec![];
    for sz in 1..=size {
        all.extend(trees_of_size(sz, leaves, max_arity, min_arity, &mut memo));
    }
    all
}

pub fn random_tree(rng: &mut Rng, depth: usize, ns: &[String], consts: bool, min_arity: usize) -> E {
    let leaf = |rng: &mut Rng| -> E {
        if consts && rng.below(8) == 0 {
            cst(rng.coin())
        } else {
            lit(rng.pick(ns).as_str())
        }
    };
    if depth == 0 || rng.below(5) == 0 {
        return leaf(rng);
    }
    match rng.below(5) {
        0 => not(random_tree(rng, depth - 1, ns, consts, min_arity)),
        1 | 2 => {
            let k = min_arity + rng.below(4 - min_arity);
            and((0..k).map(|_| random_tree(rng, depth - 1, ns, consts, min_arity)).collect())
        }
        _ => {
            let k = min_arity + rng.below(4 - min_arity);
            or((0..k).map(|_| random_tree(rng, depth - 1, ns, consts, min_arity)).collect())
        }
    }
}

/// wide n-ary nodes over a *small* set of variables (so that every model-based check stays cheap):
/// arities around the usual block sizes, literals with random polarity, now and then a small nested
/// node or a constant in the middle, also wrapped in a negation and nested below the other operator
pub fn wide_exprs(rng: &mut Rng, ns: &[String], consts: bool) -> Vec<E> {
    let mut out = vec![];
    for arity in [5usize, 6, 7, 8, 9, 10, 12, 13, 15, 16, 17, 18, 20, 21, 31, 32, 33, 40, 64, 65, 100, 127, 128, 129, 255, 256, 257, 1000, 1025] {
        for is_and in [true, false] {
            let mut ops: Vec<E> = (0..arity)
                .map(|_| {
                    let l = lit(rng.pick(ns).as_str());
                    if rng.below(3) == 0 { not(l) } else { l }
                })
                .collect();
            if rng.below(2) == 0 {
                let k = rng.below(arity);
                let inner = vec![lit(rng.pick(ns).as_str()), not(lit(rng.pick(ns).as_str()))];
                ops[k] = if is_and { or(inner) } else { and(inner) };
            }
            if consts && rng.below(4) == 0 {
                let k = rng.below(arity);
                ops[k] = cst(is_and);
            }
            let node = if is_and { and(ops) } else { or(ops) };
            out.push(match rng.below(4) {
                0 => not(node),
                1 => if is_and { or(vec![node, lit(rng.pick(ns).as_str())]) } else { and(vec![node, lit(rng.pick(ns).as_str())]) },
                _ => node,
            });
        }
    }
    out
}

pub fn random_bits(rng: &mut Rng, n: usize) -> Vec<bool> {
    (0..(1usize << n)).map(|_| rng.coin()).collect()
}

pub fn random_subset(rng: &mut Rng, pool: &[String], max: usize) -> Vec<String> {
    let mut v: Vec<String> = pool.iter().filter(|_| rng.coin()).cloned().collect();
    v.truncate(max);
    v.sort();
    v
}

fn small_name_sets(thorough: bool) -> Vec<Vec<String>> {
    let mut v = vec![names(&[]), names(&["a"]), names(&["a", "b"]), names(&["a", "b", "c"])];
    if thorough {
        v.push(names(&["a", "b", "c", "d"]));
    }
    v
}

fn pool_names() -> Vec<String> {
    names(&["a", "b", "c", "d", "e", "f", "B", "aa", "x_10", "x_2", "-", "é"])
}

// ================================================================================================
// C01

fn conv_chain(cx: &mut Ctx, prop: &str, v: &Val, depth: usize, nt: bool) {
    if depth == 0 {
        return;
    }
    let dirs: &[&str] = match v {
        Val::E(_) => &["conv.ET", "conv.EB"],
        Val::T(_) => &["conv.TE", "conv.TB"],
        Val::B(_) => &["conv.BE", "conv.BT"],
    };
    for d in dirs {
        let next = run_conv(d, v);
        cx.emit(prop, d, &[Arg::F(v.clone())], nt);
        if let Some(n) = next {
            conv_chain(cx, prop, &n, depth - 1, nt);
        }
    }
}

/// the conversion itself, keeping the *original* object (not a re-decoded one) for the next step
pub fn run_conv(dir: &str, v: &Val) -> Option<Val> {
    std::panic::catch_unwind(std::panic::AssertUnwindSafe(|| match (dir, v) {
        ("conv.ET", Val::E(e)) => Some(Val::T(TruthTable::from(e))),
        ("conv.EB", Val::E(e)) => Bdd::try_from(e.clone()).ok().map(Val::B),
        ("conv.TE", Val::T(t)) => Some(Val::E(t.to_expression_trivial())),
        ("conv.TB", Val::T(t)) => Bdd::try_from(t.clone()).ok().map(Val::B),
        ("conv.BE", Val::B(b)) => Some(Val::E(Expression::from(b.clone()))),
        ("conv.BT", Val::B(b)) => Some(Val::T(TruthTable::from(b.clone()))),
        _ => None,
    }))
    .ok()
    .flatten()
}

/// the same operation over `String` and over `u32` literals (see `typed.rs`): the literal type is a
/// parameter of the crate, and the order of numbers is not the order of their text
pub fn gen_typed(cx: &mut Ctx, prop: &str, op: &str, count: usize) {
    let ns = names(&["a", "b", "c", "d"]);
    let mut pool: Vec<E> = idiom_exprs().into_iter().step_by(9).chain(shaped_exprs()).chain(clause_pairs().into_iter().step_by(37)).collect();
    for _ in 0..count {
        pool.push(random_tree(&mut cx.rng, 3, &ns, true, 0));
    }
    let all = names(&["a", "b", "c", "d", "e", "zz"]);
    for i in 0..count {
        let e = pool[i % pool.len()].clone();
        let y = cx.rng.pick(&pool).clone();
        if tree_size(&e) > 40 || tree_size(&y) > 40 {
            continue;
        }
        let set: BTreeSet<String> = all.iter().filter(|_| cx.rng.below(3) == 0).cloned().collect();
        let mut val: BTreeMap<String, bool> = BTreeMap::new();
        for n in &all {
            if cx.rng.below(2) == 0 {
                val.insert(n.clone(), cx.rng.coin());
            }
        }
        cx.emit(prop, &format!("typed.{}", op), &[Arg::F(Val::E(e)), Arg::F(Val::E(y)), Arg::S(set), Arg::V(val)], true);
    }
}

pub fn gen_c01(cx: &mut Ctx) {
    gen_typed(cx, "C01", "conv", 150);
    let depth = if cx.thorough { 4 } else { 3 };
    for ns in small_name_sets(cx.thorough) {
        for bits in all_functions(ns.len()) {
            let nt = !is_constant(&bits) && essential_count(&bits, ns.len()) >= 2;
            let e = Val::E(expr_of_bits(&ns, &bits));
            conv_chain(cx, "C01", &e, if ns.len() >= 4 { 2 } else { depth }, nt);
            // the table and the BDD as starting points too
            let t = fn_as(1, &ns, &bits);
            conv_chain(cx, "C01", &t, 2, nt);
        }
    }
    let leaves = vec![lit("a"), lit("b"), cst(true), cst(false)];
    for e in trees_up_to(if cx.thorough { 5 } else { 4 }, &leaves, 3, 0) {
        let (ns, bits) = bits_of(&Val::E(e.clone()));
        let nt = !is_constant(&bits) && essential_count(&bits, ns.len()) >= 2;
        conv_chain(cx, "C01", &Val::E(e), 2, nt);
    }
    for e in wide_exprs(&mut cx.rng, &names(&["a", "b", "c", "x_10"]), true) {
        conv_chain(cx, "C01", &Val::E(e), 2, true);
    }
    for e in shared_exprs().into_iter().chain(shaped_exprs()) {
        conv_chain(cx, "C01", &Val::E(e), 2, true);
    }
    for e in clause_exprs(&mut cx.rng).into_iter().chain(idiom_exprs()).chain(flat_nodes(&mut cx.rng, 500)) {
        conv_chain(cx, "C01", &Val::E(e), 1, true);
    }
    let pool = pool_names();
    let n_random = cx.scale * if cx.thorough { 20000 } else { 1500 };
    for _ in 0..n_random {
        let k = 1 + cx.rng.below(if cx.thorough { 6 } else { 4 });
        let ns: Vec<String> = (0..k).map(|_| cx.rng.pick(&pool).clone()).collect();
        let e = random_tree(&mut cx.rng, if cx.thorough { 6 } else { 4 }, &ns, true, 0);
        let (ns2, bits) = bits_of(&Val::E(e.clone()));
        let nt = !is_constant(&bits) && essential_count(&bits, ns2.len()) >= 2;
        // a random path
        let mut cur = Val::E(e);
        let len = 1 + cx.rng.below(if cx.thorough { 10 } else { 6 });
        for _ in 0..len {
            let dirs: &[&str] = match cur {
                Val::E(_) => &["conv.ET", "conv.EB"],
                Val::T(_) => &["conv.TE", "conv.TB"],
                Val::B(_) => &["conv.BE", "conv.BT"],
            };
            let d = *cx.rng.pick(dirs);
            // avoid walking on through the known-defective T→B (it is exercised above)
            let d = if d == "conv.TB" && cx.rng.below(4) != 0 { "conv.TE" } else { d };
            cx.emit("C01", d, &[Arg::F(cur.clone())], nt);
            match run_conv(d, &cur) {
                Some(n) => cur = n,
                None => break,
            }
        }
    }
    // the error path: lib-bdd supports at most u16::MAX - 2 = 65 533 variables; above that the
    // conversion must return the error (never panic, never a different function)
    let counts: &[usize] = if cx.thorough { &[65533, 65534, 65535, 65536, 70000] } else { &[65534, 65535, 65536] };
    for count in counts {
        cx.emit("C01", "limit", &[Arg::A(count.to_string())], true);
    }
}

// ================================================================================================
// C02

pub fn gen_c02(cx: &mut Ctx) {
    let universe = names(&["a", "b", "c", "zz"]);
    let assignments = partial_assignments(&universe);
    for e in shared_exprs().into_iter().chain(shaped_exprs()) {
        for v in assignments.iter().step_by(7) {
            cx.emit("C02", "eval", &[Arg::F(Val::E(e.clone())), Arg::V(v.clone()), Arg::O(false)], true);
            cx.emit("C02", "evalc", &[Arg::F(Val::E(e.clone())), Arg::V(v.clone())], true);
        }
        // shared nodes with sparse assignments: the result must not depend on the sharing
        for v in assignments.iter().step_by(3) {
            cx.emit("C02", "evalc.own", &[Arg::F(Val::E(e.clone())), Arg::V(v.clone())], true);
        }
    }
    for e in wide_exprs(&mut cx.rng, &names(&["a", "b", "c"]), true) {
        for x in reps_of(&e) {
            for _ in 0..4 {
                let v = cx.rng.pick(&assignments).clone();
                let d = cx.rng.coin();
                cx.emit("C02", "eval", &[Arg::F(x.clone()), Arg::V(v.clone()), Arg::O(d)], true);
                cx.emit("C02", "evalc", &[Arg::F(x.clone()), Arg::V(v)], true);
            }
        }
    }
    // the table and diagram forms of an expression, as the crate's conversions build them
    {
        let exprs: Vec<E> = wide_exprs(&mut cx.rng, &names(&["a", "b", "c"]), true).into_iter().chain(shared_exprs()).chain(shaped_exprs()).chain(clause_exprs(&mut cx.rng)).chain(idiom_exprs()).collect();
        for e in exprs {
            for kind in ["T", "B"] {
                for _ in 0..3 {
                    let v = cx.rng.pick(&assignments).clone();
                    let d = cx.rng.coin();
                    cx.emit("C02", "eval.of", &[Arg::F(Val::E(e.clone())), Arg::A(kind.to_string()), Arg::V(v), Arg::O(d)], true);
                }
            }
        }
    }
    let leaves = vec![lit("a"), lit("b"), lit("c"), cst(true), cst(false)];
    let trees = trees_up_to(if cx.thorough { 4 } else { 3 }, &leaves, 3, 0);
    for e in trees {
        let reps = reps_of(&e);
        for v in &assignments {
            for x in &reps {
                let ins: BTreeSet<String> = match x {
                    Val::E(e) => e.inputs(),
                    Val::T(t) => t.inputs(),
                    Val::B(b) => b.inputs(),
                };
                let assigned = ins.iter().filter(|i| v.contains_key(*i)).count();
                let nt = assigned >= 1 && assigned < ins.len();
                cx.emit("C02", "eval", &[Arg::F(x.clone()), Arg::V(v.clone()), Arg::O(false)], nt);
                cx.emit("C02", "eval", &[Arg::F(x.clone()), Arg::V(v.clone()), Arg::O(true)], nt);
                cx.emit("C02", "eval0", &[Arg::F(x.clone()), Arg::V(v.clone())], nt);
                cx.emit("C02", "evalc", &[Arg::F(x.clone()), Arg::V(v.clone())], nt);
            }
        }
    }
    let pool = pool_names();
    for _ in 0..cx.scale * if cx.thorough { 50000 } else { 1500 } {
        let k = 1 + cx.rng.below(5);
        let ns: Vec<String> = (0..k).map(|_| cx.rng.pick(&pool).clone()).collect();
        let e = random_tree(&mut cx.rng, 5, &ns, true, 0);
        let mut v = BTreeMap::new();
        for n in &pool {
            if cx.rng.below(3) == 0 {
                v.insert(n.clone(), cx.rng.coin());
            }
        }
        let reps = reps_of(&e);
        let x = cx.rng.pick(&reps).clone();
        let ins = e.inputs();
        let assigned = ins.iter().filter(|i| v.contains_key(*i)).count();
        let nt = assigned >= 1 && assigned < ins.len();
        let d = cx.rng.coin();
        cx.emit("C02", "eval", &[Arg::F(x.clone()), Arg::V(v.clone()), Arg::O(d)], nt);
        cx.emit("C02", "evalc", &[Arg::F(x), Arg::V(v)], nt);
    }
}

/// the expression, its table form and its BDD form
pub fn reps_of(e: &E) -> Vec<Val> {
    let mut v = vec![Val::E(e.clone()), Val::T(TruthTable::from(e))];
    if let Ok(b) = Bdd::try_from(e.clone()) {
        v.push(Val::B(b));
    }
    v
}

// ================================================================================================
// C03

pub fn gen_c03(cx: &mut Ctx) {
    gen_typed(cx, "C03", "bin", 150);
    let universe = names(&["a", "b", "c", "d"]);
    let max_vars = if cx.thorough { 3 } else { 2 };
    let sets: Vec<Vec<String>> = subsets(&universe).into_iter().filter(|s| s.len() <= max_vars).collect();
    let mut fams: Vec<(Vec<String>, Vec<bool>)> = vec![];
    for ns in &sets {
        for bits in all_functions(ns.len()) {
            fams.push((ns.clone(), bits));
        }
    }
    // thorough with 3 variables: 4·256+… ≈ 1138 members → 1.3 M pairs per op; sample pairs there
    let total_pairs = fams.len() * fams.len();
    let stride = if total_pairs > 60000 { total_pairs / 60000 } else { 1 };
    for kind in [1usize, 2] {
        let objs: Vec<Val> = fams.iter().map(|(ns, bits)| fn_as(kind, ns, bits)).collect();
        let mut idx = 0usize;
        for (i, a) in objs.iter().enumerate() {
            for (j, b) in objs.iter().enumerate() {
                idx += 1;
                if idx % stride != 0 {
                    continue;
                }
                let (na, nb) = (&fams[i].0, &fams[j].0);
                let overlap = na.iter().any(|x| nb.contains(x));
                let nt = na != nb && overlap;
                for op in ["and", "or", "xor"] {
                    cx.emit("C03", op, &[Arg::F(a.clone()), Arg::F(b.clone())], nt);
                }
                if (i + j) % 7 == 0 {
                    for op in ["and", "or", "xor"] {
                        cx.emit("C03", "forms", &[Arg::A(s(op)), Arg::F(a.clone()), Arg::F(b.clone())], nt);
                    }
                }
            }
            cx.emit("C03", "not", &[Arg::F(a.clone())], false);
            cx.emit("C03", "forms", &[Arg::A(s("not")), Arg::F(a.clone()), Arg::F(a.clone())], false);
            // the same object on both sides of a by-reference operator
            for op in ["and.self", "or.self", "xor.self"] {
                cx.emit("C03", op, &[Arg::F(a.clone())], true);
            }
        }
    }
    // expressions: structural (flattening)
    let leaves = vec![lit("a"), lit("b"), cst(true)];
    let trees = trees_up_to(3, &leaves, 2, 0);
    for a in &trees {
        for b in &trees {
            let va = a.inputs();
            let vb = b.inputs();
            let nt = va != vb && va.intersection(&vb).next().is_some();
            for op in ["and", "or", "xor", "imply", "iff"] {
                cx.emit("C03", op, &[Arg::F(Val::E(a.clone())), Arg::F(Val::E(b.clone()))], nt);
            }
            for op in ["and.own", "or.own", "xor.own", "imply.own", "iff.own"] {
                cx.emit("C03", op, &[Arg::F(Val::E(a.clone())), Arg::F(Val::E(b.clone()))], true);
            }
        }
        cx.emit("C03", "not", &[Arg::F(Val::E(a.clone()))], false);
    }
    // operands that share a node with each other (one handle, cloned into both sides), plain and negated
    {
        let (a, b, c, d) = (lit("a"), lit("b"), lit("c"), lit("d"));
        let shared: Vec<E> = vec![
            a.clone(), not(a.clone()), and(vec![a.clone(), b.clone()]), or(vec![a.clone(), b.clone()]),
            not(and(vec![a.clone(), b.clone()])), and(vec![a.clone(), or(vec![b.clone(), c.clone()])]), cst(true),
        ];
        let sides: Vec<E> = vec![c.clone(), d.clone(), not(c.clone()), and(vec![c.clone(), d.clone()]), or(vec![b.clone(), d.clone()])];
        for x in &shared {
            for y in sides.iter().take(3) {
                for z in sides.iter().skip(1) {
                    for mode in ["ooN", "ooL", "ooR", "ooB", "aaN", "aaL", "aaR", "aaB", "oaL", "oaR", "aoL", "aoR", "oaN", "aoB"] {
                        for op in ["and", "or", "xor", "imply", "iff"] {
                            cx.emit("C03", &format!("{}.shared", op), &[Arg::F(Val::E(x.clone())), Arg::F(Val::E(y.clone())), Arg::F(Val::E(z.clone())), Arg::A(mode.to_string())], true);
                        }
                    }
                }
            }
        }
    }
    // random larger pairs
    let pool = pool_names();
    for _ in 0..cx.scale * if cx.thorough { 100000 } else { 3000 } {
        let na = random_subset(&mut cx.rng, &pool, 5);
        let nb = random_subset(&mut cx.rng, &pool, 5);
        let kind = cx.rng.below(3);
        let (a, b) = if kind == 0 {
            let pa = if na.is_empty() { names(&["a"]) } else { na.clone() };
            let pb = if nb.is_empty() { names(&["b"]) } else { nb.clone() };
            (
                Val::E(random_tree(&mut cx.rng, 3, &pa, true, 0)),
                Val::E(random_tree(&mut cx.rng, 3, &pb, true, 0)),
            )
        } else {
            let ba = random_bits(&mut cx.rng, na.len());
            let bb = random_bits(&mut cx.rng, nb.len());
            (fn_as(kind, &na, &ba), fn_as(kind, &nb, &bb))
        };
        let nt = na != nb && na.iter().any(|x| nb.contains(x));
        let op = *cx.rng.pick(&["and", "or", "xor"]);
        cx.emit("C03", op, &[Arg::F(a.clone()), Arg::F(b.clone())], nt);
        if kind != 0 && cx.rng.below(4) == 0 {
            cx.emit("C03", "forms", &[Arg::A(s(op)), Arg::F(a), Arg::F(b)], nt);
        }
    }
}

// ================================================================================================
// C04: pairs built through histories

/// identity-like rebuild recipes; each returns an object denoting the same function
pub fn rebuild(v: &Val, recipe: usize) -> Option<Val> {
    std::panic::catch_unwind(std::panic::AssertUnwindSafe(|| {
        let empty: BTreeMap<String, bool> = BTreeMap::new();
        let foreign: BTreeMap<String, bool> = BTreeMap::from([(s("zz"), true)]);
        let fset: BTreeSet<String> = BTreeSet::from([s("zz")]);
        Some(match (v, recipe % 8) {
            (Val::E(e), 0) => Val::E(e.restrict(&empty)),
            (Val::T(t), 0) => Val::T(t.restrict(&empty)),
            (Val::B(b), 0) => Val::B(b.restrict(&empty)),
            (Val::E(e), 1) => Val::E(e.restrict(&foreign)),
            (Val::T(t), 1) => Val::T(t.restrict(&foreign)),
            (Val::B(b), 1) => Val::B(b.restrict(&foreign)),
            (Val::E(e), 2) => Val::E(e.clone() & cst(true)),
            (Val::T(t), 2) => Val::T(t & &TruthTable::from(&cst(true))),
            (Val::B(b), 2) => Val::B(b & &Bdd::mk_const(true)),
            (Val::E(e), 3) => Val::E(!!e.clone()),
            (Val::T(t), 3) => Val::T(!!t.clone()),
            (Val::B(b), 3) => Val::B(!!b.clone()),
            (Val::E(e), 4) => Val::E(e.existential_quantification(fset)),
            (Val::T(t), 4) => Val::T(t.existential_quantification(fset)),
            (Val::B(b), 4) => Val::B(b.existential_quantification(fset)),
            // round trips through another representation (never through T→B, known finding)
            (Val::E(e), 5) => Val::E(Expression::from(Bdd::try_from(e.clone()).ok()?)),
            (Val::T(t), 5) => Val::T(TruthTable::from(&t.to_expression_trivial())),
            (Val::B(b), 5) => Val::B(Bdd::try_from(Expression::from(b.clone())).ok()?),
            // lift by and-ing with a tautology over a new name
            (Val::E(e), 6) => Val::E(e.clone() & (lit("q") | !lit("q"))),
            (Val::T(t), 6) => Val::T(t & &TruthTable::from(&(lit("q") | !lit("q")))),
            (Val::B(b), 6) => Val::B(b & &Bdd::try_from(lit("q") | !lit("q")).ok()?),
            // x xor false, then restricted by {} (the D2 shape)
            (Val::E(e), _) => Val::E((e.clone() ^ cst(false)).restrict(&empty)),
            (Val::T(t), _) => Val::T((t ^ &TruthTable::from(&cst(false))).restrict(&empty)),
            (Val::B(b), _) => Val::B((b ^ &Bdd::mk_const(false)).restrict(&empty)),
        })
    }))
    .ok()
    .flatten()
}

pub fn gen_c04(cx: &mut Ctx) {
    let universe = names(&["a", "b", "c"]);
    let max_vars = if cx.thorough { 3 } else { 2 };
    let sets: Vec<Vec<String>> = subsets(&universe).into_iter().filter(|s| s.len() <= max_vars).collect();
    let mut fams: Vec<(Vec<String>, Vec<bool>)> = vec![];
    for ns in &sets {
        for bits in all_functions(ns.len()) {
            fams.push((ns.clone(), bits));
        }
    }
    let total_pairs = fams.len() * fams.len();
    let stride = if total_pairs > 20000 { total_pairs / 20000 } else { 1 };
    for kind in 0..3usize {
        let objs: Vec<Val> = fams.iter().map(|(ns, bits)| fn_as(kind, ns, bits)).collect();
        let mut idx = 0;
        for (i, a) in objs.iter().enumerate() {
            for (j, b) in objs.iter().enumerate() {
                idx += 1;
                if idx % stride != 0 {
                    continue;
                }
                let nt = fams[i].0 != fams[j].0;
                emit_cmp(cx, a, b, nt, kind);
            }
            // the same function rebuilt through a history, and a near miss
            for recipe in 0..8 {
                if let Some(g) = rebuild(a, recipe) {
                    emit_cmp(cx, a, &g, true, kind);
                    emit_cmp(cx, &g, a, true, kind);
                    let (ns, bits) = &fams[i];
                    if !bits.is_empty() {
                        let mut near = bits.clone();
                        let k = (i + recipe) % near.len();
                        near[k] = !near[k];
                        let h = fn_as(kind, ns, &near);
                        emit_cmp(cx, &g, &h, true, kind);
                        if let Some(h2) = rebuild(&h, recipe + 1) {
                            emit_cmp(cx, &h2, &g, true, kind);
                        }
                    }
                }
            }
        }
    }
    // spellings of one function with private inessential variables: all pairs, and against a near miss
    for base in [lit("a"), and(vec![lit("a"), not(lit("b"))]), or(vec![lit("a"), lit("b")]), lit("a") ^ lit("b"), cst(true)] {
        let vs = dead_branch_variants(&base);
        let near = or(vec![base.clone(), and(vec![lit("p"), lit("q")])]);
        for x in &vs {
            for y in &vs {
                emit_cmp(cx, &Val::E(x.clone()), &Val::E(y.clone()), true, 0);
            }
            emit_cmp(cx, &Val::E(x.clone()), &Val::E(near.clone()), true, 0);
            emit_cmp(cx, &Val::E(near.clone()), &Val::E(x.clone()), true, 0);
        }
    }
    for x in idiom_exprs() {
        for y in idiom_exprs().into_iter().step_by(7) {
            emit_cmp(cx, &Val::E(x.clone()), &Val::E(y), true, 0);
        }
        // a function and the Not node of the very same tree, both ways
        emit_cmp(cx, &Val::E(x.clone()), &Val::E(not(x.clone())), true, 0);
        emit_cmp(cx, &Val::E(not(x.clone())), &Val::E(x.clone()), true, 0);
        emit_cmp(cx, &Val::E(not(not(x.clone()))), &Val::E(x.clone()), true, 0);
    }
    let pool = pool_names();
    for _ in 0..cx.scale * if cx.thorough { 100000 } else { 3000 } {
        let kind = cx.rng.below(3);
        let na = random_subset(&mut cx.rng, &pool, 4);
        let ba = random_bits(&mut cx.rng, na.len());
        let mut a = fn_as(kind, &na, &ba);
        let steps = cx.rng.below(4);
        for _ in 0..steps {
            let r = cx.rng.below(8);
            if let Some(g) = rebuild(&a, r) {
                a = g;
            }
        }
        let b = if cx.rng.coin() {
            // same function over a (possibly) different declared set
            let mut g = fn_as(kind, &na, &ba);
            if cx.rng.coin() {
                if let Some(x) = rebuild(&g, 6) {
                    g = x;
                }
            }
            g
        } else {
            let nb = random_subset(&mut cx.rng, &pool, 4);
            let bb = random_bits(&mut cx.rng, nb.len());
            fn_as(kind, &nb, &bb)
        };
        emit_cmp(cx, &a, &b, true, kind);
    }
}

fn emit_cmp(cx: &mut Ctx, a: &Val, b: &Val, nt: bool, kind: usize) {
    cx.emit("C04", "equiv", &[Arg::F(a.clone()), Arg::F(b.clone())], nt);
    cx.emit("C04", "implied", &[Arg::F(a.clone()), Arg::F(b.clone())], nt);
    if kind != 2 {
        cx.emit("C04", "semeq", &[Arg::F(a.clone()), Arg::F(b.clone())], nt);
        cx.emit("C04", "semne", &[Arg::F(a.clone()), Arg::F(b.clone())], nt);
    }
}

// ================================================================================================
// C05, C06, C07

/// expressions in which one compound node is shared between several places, also under different
/// numbers of negations (`iff`, `xor` and `imply` of compound operands produce such objects)
pub fn shared_exprs() -> Vec<E> {
    let (a, b, c, d) = (lit("a"), lit("b"), lit("c"), lit("d"));
    let x = or(vec![a.clone(), b.clone()]);
    let y = and(vec![c.clone(), not(a.clone())]);
    let t = or(vec![a.clone(), and(vec![b.clone(), c.clone()])]);
    vec![
        and(vec![x.clone(), not(x.clone())]),
        or(vec![not(x.clone()), x.clone()]),
        and(vec![not(not(x.clone())), x.clone(), not(x.clone())]),
        x.clone().iff(y.clone()),
        x.clone() ^ y.clone(),
        x.clone().imply(x.clone()),
        and(vec![t.clone(), c.clone()]).imply(and(vec![t.clone(), d.clone()])),
        not(and(vec![x.clone(), or(vec![y.clone(), not(x.clone())])])),
        or(vec![and(vec![x.clone(), y.clone()]), not(and(vec![x.clone(), y.clone()]))]),
        (x.clone() ^ y.clone()) ^ (x.clone().iff(t.clone())),
        not(t.clone()).iff(t.clone()),
    ]
}

/// DNF- and CNF-shaped expressions whose clauses repeat a variable, in the same or in the opposite
/// polarity, at every pair of positions (a clause-at-once fast path must notice `x … !x` wherever the
/// two occurrences stand): every 3-literal clause over {a, !a, b, !b}, alone, next to a literal and
/// next to another clause; plus longer random clauses
pub fn clause_exprs(rng: &mut Rng) -> Vec<E> {
    let (a, b, c, d) = (lit("a"), lit("b"), lit("c"), lit("d"));
    let lits = [a.clone(), not(a.clone()), b.clone(), not(b.clone())];
    let mut out = vec![];
    for i in 0..4 {
        for j in 0..4 {
            for k in 0..4 {
                let clause = vec![lits[i].clone(), lits[j].clone(), lits[k].clone()];
                for dual in [false, true] {
                    let inner = |xs: Vec<E>| if dual { or(xs) } else { and(xs) };
                    let outer = |xs: Vec<E>| if dual { and(xs) } else { or(xs) };
                    out.push(inner(clause.clone()));
                    out.push(outer(vec![inner(clause.clone()), c.clone()]));
                    out.push(outer(vec![inner(clause.clone()), inner(vec![c.clone(), d.clone()])]));
                    out.push(outer(vec![inner(vec![c.clone(), not(d.clone())]), inner(clause.clone())]));
                }
            }
        }
    }
    let vars = [a, b, c, d, lit("e")];
    for _ in 0..200 {
        let dual = rng.coin();
        let n_clauses = 1 + rng.below(4);
        let mut clauses = vec![];
        for _ in 0..n_clauses {
            let len = 2 + rng.below(8);
            let clause: Vec<E> = (0..len).map(|_| { let v = rng.pick(&vars).clone(); if rng.coin() { v } else { not(v) } }).collect();
            clauses.push(if dual { or(clause) } else { and(clause) });
        }
        out.push(if dual { and(clauses) } else { or(clauses) });
    }
    out
}

/// the shapes that rewriting "optimisations" pattern-match on, with operand lists of 1 to 4 members and
/// their near misses: the expansion of xor (`Or(xs) & !And(xs)`), of equivalence, of implication,
/// absorption, De Morgan pairs, multiplexers, dead branches
pub fn idiom_exprs() -> Vec<E> {
    let (a, b, c, d) = (lit("a"), lit("b"), lit("c"), lit("d"));
    let ab = and(vec![a.clone(), not(b.clone())]);
    let lists: Vec<Vec<E>> = vec![
        vec![a.clone()],
        vec![a.clone(), b.clone()],
        vec![a.clone(), b.clone(), c.clone()],
        vec![a.clone(), b.clone(), c.clone(), d.clone()],
        vec![ab.clone(), c.clone(), d.clone()],
        vec![not(a.clone()), b.clone(), not(c.clone())],
        vec![a.clone(), a.clone(), b.clone()],
    ];
    let neg_all = |xs: &Vec<E>| -> Vec<E> { xs.iter().map(|x| not(x.clone())).collect() };
    let mut out = vec![];
    for xs in &lists {
        let mut rev = xs.clone();
        rev.reverse();
        // xor expansion and its near misses
        out.push(and(vec![or(xs.clone()), not(and(xs.clone()))]));
        out.push(and(vec![not(and(xs.clone())), or(xs.clone())]));
        out.push(and(vec![or(xs.clone()), not(and(rev.clone()))]));
        out.push(and(vec![or(xs.clone()), not(and(xs.clone())), d.clone()]));
        out.push(or(vec![and(xs.clone()), not(or(xs.clone()))]));
        out.push(not(and(vec![or(xs.clone()), not(and(xs.clone()))])));
        // equivalence expansion: all true or all false
        out.push(or(vec![and(xs.clone()), and(neg_all(xs))]));
        out.push(and(vec![or(xs.clone()), or(neg_all(xs))]));
        // De Morgan pairs
        out.push(not(and(xs.clone())));
        out.push(or(neg_all(xs)));
        out.push(not(or(xs.clone())));
        out.push(and(neg_all(xs)));
        out.push(not(and(neg_all(xs))));
        // a negated node whose operands disagree on a variable
        out.push(not(and(vec![or(xs.clone()), or(neg_all(xs))])));
        out.push(and(vec![d.clone(), not(and(vec![a.clone(), b.clone(), or(vec![not(a.clone()), c.clone()])]))]));
    }
    // the xor outline with a product that only shares a prefix with the sum
    for xs in &lists {
        let mut longer = xs.clone();
        longer.push(d.clone());
        let shorter: Vec<E> = xs.iter().take(xs.len().saturating_sub(1)).cloned().collect();
        out.push(and(vec![or(xs.clone()), not(and(longer.clone()))]));
        out.push(and(vec![or(xs.clone()), not(and(shorter.clone()))]));
        out.push(and(vec![or(xs.clone()), not(and(vec![]))]));
        out.push(and(vec![or(longer), not(and(xs.clone()))]));
    }
    // operands that are constant without being constants (compound tautologies / contradictions), in
    // front of, between and behind operands that matter, below zero, one and two negations
    {
        let dead: Vec<E> = vec![
            or(vec![a.clone(), not(a.clone())]),
            and(vec![a.clone(), not(a.clone())]),
            or(vec![and(vec![a.clone(), c.clone()]), not(a.clone()), not(c.clone())]),
            not(or(vec![c.clone(), not(c.clone())])),
            and(vec![]),
            or(vec![]),
        ];
        for t in &dead {
            for is_and in [true, false] {
                let mk = |v: Vec<E>| if is_and { and(v) } else { or(v) };
                for node in [
                    mk(vec![t.clone(), b.clone()]),
                    mk(vec![b.clone(), t.clone()]),
                    mk(vec![b.clone(), t.clone(), d.clone()]),
                    mk(vec![t.clone(), b.clone(), not(d.clone())]),
                ] {
                    out.push(node.clone());
                    out.push(not(node.clone()));
                    out.push(not(not(node.clone())));
                    out.push(or(vec![d.clone(), not(node)]));
                }
            }
        }
        // both empty nodes in one expression
        out.push(and(vec![and(vec![]), not(or(vec![]))]));
        out.push(or(vec![and(vec![a.clone(), and(vec![])]), and(vec![b.clone(), or(vec![])])]));
        out.push(and(vec![or(vec![a.clone(), or(vec![])]), or(vec![b.clone(), and(vec![])])]));
        out.push(or(vec![or(vec![]), and(vec![]), a.clone()]));
    }
    // clauses with a nested node of the same connective, the variable in both polarities on different levels
    {
        let x = lit("a");
        for (p, q, r) in [(x.clone(), b.clone(), not(x.clone())), (not(x.clone()), x.clone(), c.clone()), (b.clone(), x.clone(), not(x.clone())), (x.clone(), c.clone(), x.clone())] {
            for dual in [false, true] {
                let inner = |v: Vec<E>| if dual { or(v) } else { and(v) };
                let outer = |v: Vec<E>| if dual { and(v) } else { or(v) };
                let other = inner(vec![c.clone(), d.clone()]);
                out.push(outer(vec![inner(vec![inner(vec![p.clone(), q.clone()]), r.clone()]), other.clone()]));
                out.push(outer(vec![inner(vec![p.clone(), inner(vec![q.clone(), r.clone()])]), other.clone()]));
                out.push(outer(vec![other.clone(), inner(vec![inner(vec![p.clone()]), inner(vec![q.clone(), r.clone()])])]));
                out.push(inner(vec![inner(vec![p.clone(), q.clone()]), r.clone()]));
            }
        }
    }
    // implication, absorption, multiplexer, consensus, dead branches
    out.push(or(vec![not(a.clone()), b.clone()]));
    out.push(or(vec![not(ab.clone()), c.clone()]));
    out.push(or(vec![a.clone(), and(vec![a.clone(), b.clone()])]));
    out.push(and(vec![a.clone(), or(vec![a.clone(), b.clone()])]));
    out.push(or(vec![a.clone(), and(vec![not(a.clone()), b.clone()])]));
    out.push(or(vec![and(vec![c.clone(), a.clone()]), and(vec![not(c.clone()), b.clone()])]));
    out.push(or(vec![and(vec![a.clone(), c.clone()]), and(vec![b.clone(), not(c.clone())]), and(vec![a.clone(), b.clone()])]));
    out.push(not(and(vec![a.clone(), not(a.clone())])));
    out.push(not(and(vec![or(vec![a.clone(), b.clone()]), or(vec![not(a.clone()), c.clone()])])));
    out.push((a.clone() ^ b.clone()) ^ (a.clone() ^ c.clone()));
    out.push(or(vec![and(vec![a.clone(), c.clone()]), and(vec![b.clone(), d.clone()])]));
    out.push(and(vec![a.clone(), c.clone()]) ^ and(vec![b.clone(), d.clone()]));
    out
}

/// spellings of one function that mention private, inessential variables: every pair of them is
/// equivalent although the sets of mentioned variables only partly overlap
pub fn dead_branch_variants(base: &E) -> Vec<E> {
    let (p, q) = (lit("p"), lit("q"));
    vec![
        base.clone(),
        or(vec![base.clone(), and(vec![base.clone(), p.clone()])]),
        and(vec![base.clone(), or(vec![base.clone(), q.clone()])]),
        or(vec![base.clone(), and(vec![p.clone(), not(p.clone())])]),
        and(vec![base.clone(), or(vec![q.clone(), not(q.clone())])]),
        or(vec![and(vec![base.clone(), p.clone()]), and(vec![base.clone(), not(p.clone())])]),
        or(vec![base.clone(), and(vec![q.clone(), cst(false)])]),
        and(vec![base.clone(), or(vec![p.clone(), cst(true)])]),
        and(vec![or(vec![base.clone(), p.clone()]), or(vec![base.clone(), not(p.clone())]), or(vec![q.clone(), not(q.clone())])]),
    ]
}

/// flat n-ary nodes of 3 to 5 operands, each a literal or a small clause of the dual connective, over
/// four variables in random order and polarity: operands that share variables in every pattern
/// (grouping, block skipping and unit propagation shortcuts depend on the *order* of such operands)
pub fn flat_nodes(rng: &mut Rng, count: usize) -> Vec<E> {
    let vars = [lit("a"), lit("b"), lit("c"), lit("d")];
    let mut out = vec![];
    for _ in 0..count {
        let is_and = rng.coin();
        let k = 3 + rng.below(3);
        let mut ops = vec![];
        for _ in 0..k {
            let len = match rng.below(5) { 0 | 1 => 1, 2 | 3 => 2, _ => 3 };
            let mut ls: Vec<E> = vec![];
            for _ in 0..len {
                let v = rng.pick(&vars).clone();
                ls.push(if rng.below(3) == 0 { not(v) } else { v });
            }
            ops.push(if len == 1 { ls.pop().unwrap() } else if is_and { or(ls) } else { and(ls) });
        }
        out.push(if is_and { and(ops) } else { or(ops) });
    }
    out
}

/// pairs of clauses over {a, b, c} in every inclusion / prefix / permutation relation, as a DNF and as
/// a CNF (absorption-like simplifications must respect which clause contains which)
pub fn clause_pairs() -> Vec<E> {
    let vars = [lit("a"), lit("b"), lit("c")];
    let mut seqs: Vec<Vec<E>> = vec![];
    for i in 0..3 {
        seqs.push(vec![vars[i].clone()]);
        for j in 0..3 {
            if j != i {
                seqs.push(vec![vars[i].clone(), vars[j].clone()]);
                for k in 0..3 {
                    if k != i && k != j {
                        seqs.push(vec![vars[i].clone(), vars[j].clone(), vars[k].clone()]);
                    }
                }
            }
        }
    }
    // a negated and a compound member, too
    seqs.push(vec![vars[0].clone(), not(vars[1].clone())]);
    seqs.push(vec![vars[0].clone(), not(vars[1].clone()), vars[2].clone()]);
    seqs.push(vec![or(vec![vars[0].clone(), vars[1].clone()]), vars[2].clone()]);
    seqs.push(vec![or(vec![vars[0].clone(), vars[1].clone()]), vars[2].clone(), not(vars[0].clone())]);
    let mut out = vec![];
    for c1 in &seqs {
        for c2 in &seqs {
            out.push(or(vec![and(c1.clone()), and(c2.clone())]));
            out.push(and(vec![or(c1.clone()), or(c2.clone())]));
        }
    }
    // two-literal clauses over {a, b} in every polarity and order, alone and below another operand
    {
        let signed = [lit("a"), not(lit("a")), lit("b"), not(lit("b"))];
        let mut twos: Vec<Vec<E>> = vec![];
        for i in 0..4 {
            for j in 0..4 {
                if i / 2 != j / 2 {
                    twos.push(vec![signed[i].clone(), signed[j].clone()]);
                }
            }
        }
        for c1 in &twos {
            for c2 in &twos {
                let cnf = and(vec![or(c1.clone()), or(c2.clone())]);
                let dnf = or(vec![and(c1.clone()), and(c2.clone())]);
                out.push(or(vec![lit("x"), cnf.clone()]));
                out.push(and(vec![lit("x"), dnf.clone()]));
                out.push(or(vec![cnf.clone(), lit("x")]));
                out.push(not(dnf.clone()));
                out.push(cnf);
                out.push(dnf);
            }
        }
    }
    // three clauses: the accumulated product meets the next operand
    for c1 in seqs.iter().step_by(3) {
        for c2 in seqs.iter().step_by(4) {
            out.push(or(vec![lit("d"), and(c1.clone()), and(c2.clone())]));
            out.push(or(vec![and(c1.clone()), lit("d"), and(c2.clone())]));
            out.push(and(vec![or(c1.clone()), or(c2.clone()), lit("d")]));
        }
    }
    out
}

/// expression shapes the minterm families never contain: stacked negations, constants, one-operand
/// and empty n-ary nodes, the same variable in both polarities
fn shaped_exprs() -> Vec<E> {
    let (a, b, c) = (lit("a"), lit("b"), lit("c"));
    vec![
        not(not(a.clone())),
        not(not(not(a.clone()))),
        and(vec![not(not(a.clone())), b.clone()]),
        or(vec![not(not(not(b.clone()))), a.clone(), not(not(c.clone()))]),
        not(and(vec![not(not(a.clone())), not(b.clone())])),
        and(vec![a.clone(), not(a.clone()), b.clone()]),
        or(vec![a.clone(), not(a.clone()), c.clone()]),
        and(vec![a.clone()]),
        or(vec![not(not(b.clone()))]),
        and(vec![]),
        or(vec![]),
        and(vec![or(vec![]), a.clone()]),
        or(vec![and(vec![]), not(not(a.clone()))]),
        and(vec![cst(true), not(not(a.clone())), cst(false)]),
        not(cst(true)),
        not(not(cst(false))),
        or(vec![and(vec![a.clone(), not(not(b.clone()))]), and(vec![not(a.clone()), c.clone()])]),
        and(vec![not(a.clone()), and(vec![a.clone(), b.clone()])]),
        and(vec![and(vec![a.clone(), b.clone()]), not(a.clone())]),
        or(vec![and(vec![not(a.clone()), and(vec![a.clone(), b.clone()])]), and(vec![not(b.clone()), c.clone()])]),
        or(vec![a.clone(), or(vec![not(a.clone()), b.clone()])]),
        and(vec![b.clone(), and(vec![c.clone(), and(vec![not(b.clone()), a.clone()])])]),
    ]
}

pub fn gen_c05(cx: &mut Ctx) {
    gen_typed(cx, "C05", "restrict", 150);
    {
        let keys = names(&["a", "b", "c", "zz"]);
        let assignments = partial_assignments(&keys);
        for e in shaped_exprs().into_iter().chain(shared_exprs()) {
            for r in &assignments {
                cx.emit("C05", "restrict", &[Arg::F(Val::E(e.clone())), Arg::V(r.clone())], true);
            }
        }
    }
    for ns in small_name_sets(cx.thorough) {
        let mut keys = ns.clone();
        keys.push(s("zz"));
        if cx.thorough {
            keys.push(s("0"));
        }
        let assignments = partial_assignments(&keys);
        for bits in all_functions(ns.len()) {
            if ns.len() >= 4 && cx.rng.below(16) != 0 {
                continue;
            }
            for kind in 0..3 {
                let x = fn_as(kind, &ns, &bits);
                for v in &assignments {
                    let fixed = v.keys().filter(|k| ns.contains(k)).count();
                    let nt = fixed >= 2 || v.is_empty() || v.keys().any(|k| !ns.contains(k));
                    cx.emit("C05", "restrict", &[Arg::F(x.clone()), Arg::V(v.clone())], nt);
                }
                // runs of foreign keys in front of, between and behind the inputs, with and without a
                // fixed input after them
                for foreign in [vec!["0", "1"], vec!["0", "1", "2"], vec!["a0", "a1"], vec!["0", "a0", "a1", "b0"], vec!["zy", "zz"]] {
                    for fix in subsets(&ns) {
                        if fix.len() > 2 || cx.rng.below(2) == 0 {
                            continue;
                        }
                        let mut v: BTreeMap<String, bool> = foreign.iter().map(|k| (k.to_string(), cx.rng.coin())).collect();
                        for k in &fix {
                            v.insert(k.clone(), cx.rng.coin());
                        }
                        cx.emit("C05", "restrict", &[Arg::F(x.clone()), Arg::V(v)], true);
                    }
                }
            }
        }
    }
    random_unary(cx, "C05");
}

fn random_unary(cx: &mut Ctx, prop: &str) {
    let pool = pool_names();
    for _ in 0..cx.scale * if cx.thorough { 30000 } else { 1500 } {
        let kind = cx.rng.below(3);
        let na = random_subset(&mut cx.rng, &pool, 6);
        let x = if kind == 0 && !na.is_empty() && cx.rng.coin() {
            Val::E(random_tree(&mut cx.rng, 4, &na, true, 0))
        } else {
            let ba = random_bits(&mut cx.rng, na.len());
            fn_as(kind, &na, &ba)
        };
        match prop {
            "C05" => {
                let mut v = BTreeMap::new();
                for n in &pool {
                    if cx.rng.below(3) == 0 {
                        v.insert(n.clone(), cx.rng.coin());
                    }
                }
                let nt = v.keys().filter(|k| na.contains(k)).count() >= 2;
                cx.emit(prop, "restrict", &[Arg::F(x), Arg::V(v)], nt);
            }
            "C06" | "C07" => {
                let mut vs: BTreeSet<String> = pool.iter().filter(|_| cx.rng.below(3) == 0).cloned().collect();
                if kind == 0 {
                    vs = vs.into_iter().take(2).collect();
                }
                let nt = vs.iter().filter(|k| na.contains(k)).count() >= 2;
                if prop == "C06" {
                    let op = if cx.rng.coin() { "exists" } else { "forall" };
                    cx.emit(prop, op, &[Arg::F(x), Arg::S(vs)], nt);
                } else {
                    cx.emit(prop, "deriv", &[Arg::F(x), Arg::S(vs)], nt);
                }
            }
            _ => {}
        }
    }
}

fn gen_quant(cx: &mut Ctx, prop: &str, ops: &[&str]) {
    gen_typed(cx, prop, "quant", 150);
    let universe = if cx.thorough { names(&["a", "b", "c", "d", "zz"]) } else { names(&["a", "b", "c", "zz"]) };
    let mut sets = subsets(&universe);
    // foreign names that fall into one gap of the sorted inputs: before everything (`0`, `1`), between
    // `a` and `b` (`a0`, `a1`), after everything (`zy`, `zz`), together with inputs
    for extra in [vec!["0", "1"], vec!["a0", "a1"], vec!["zy", "zz"], vec!["0", "a0", "a1"]] {
        for base in [vec![], vec!["a"], vec!["b"], vec!["a", "b"], vec!["c"], vec!["b", "c"]] {
            let mut v: Vec<String> = base.iter().chain(extra.iter()).map(|x| x.to_string()).collect();
            v.sort();
            sets.push(v);
        }
    }
    for ns in small_name_sets(cx.thorough) {
        for bits in all_functions(ns.len()) {
            if ns.len() >= 4 && cx.rng.below(16) != 0 {
                continue;
            }
            for kind in 0..3 {
                let x = fn_as(kind, &ns, &bits);
                for vs in &sets {
                    // expression results grow by 2x (quantifiers) / 4x (xor) per eliminated variable
                    if kind == 0 && (vs.len() > 2 || (ns.len() > 2 && vs.len() > 1)) {
                        continue;
                    }
                    let inside = vs.iter().filter(|k| ns.contains(k)).count();
                    let first_not = vs.iter().any(|k| ns.first() != Some(k) && ns.contains(k));
                    let nt = inside >= 2 || vs.is_empty() || first_not;
                    let set: BTreeSet<String> = vs.iter().cloned().collect();
                    for op in ops {
                        cx.emit(prop, op, &[Arg::F(x.clone()), Arg::S(set.clone())], nt);
                    }
                }
            }
        }
    }
    for e in idiom_exprs().into_iter().chain(clause_pairs().into_iter().step_by(5)) {
        for e in [e.clone(), not(e)] {
            for vs in [vec!["a"], vec!["b"], vec!["c"], vec!["a", "b"], vec!["c", "d"], vec!["a", "zz"]] {
                let set: BTreeSet<String> = vs.iter().map(|x| x.to_string()).collect();
                for kind in 0..3 {
                    // expression derivatives quadruple per variable
                    if kind == 0 && vs.len() > 1 && ops.contains(&"deriv") && tree_size(&e) > 30 {
                        continue;
                    }
                    let x = match kind {
                        0 => Val::E(e.clone()),
                        1 => Val::T(TruthTable::from(&e)),
                        _ => match Bdd::try_from(e.clone()) { Ok(b) => Val::B(b), Err(_) => continue },
                    };
                    for op in ops {
                        cx.emit(prop, op, &[Arg::F(x.clone()), Arg::S(set.clone())], true);
                    }
                }
            }
        }
    }
    random_unary(cx, prop);
}

pub fn gen_c06(cx: &mut Ctx) {
    gen_quant(cx, "C06", &["exists", "forall"]);
}
pub fn gen_c07(cx: &mut Ctx) {
    gen_quant(cx, "C07", &["deriv"]);
}

// ================================================================================================
// C08

pub fn gen_c08(cx: &mut Ctx) {
    gen_typed(cx, "C08", "subst", 150);
    let key_pool = names(&["a", "b", "z"]);
    // replacement functions of at most one variable over {a, b, c, z}
    let mut values: Vec<(Vec<String>, Vec<bool>)> = vec![(vec![], vec![false]), (vec![], vec![true])];
    for v in ["a", "b", "c", "z"] {
        values.push((names(&[v]), vec![false, true]));
        values.push((names(&[v]), vec![true, false]));
    }
    // replacements that merely declare an input (also one that is a key of the map)
    values.push((names(&["b"]), vec![true, true]));
    values.push((names(&["a", "c"]), vec![false, true, false, true]));
    values.push((names(&["b", "c"]), vec![false, true, false, true]));
    values.push((names(&["b", "z"]), vec![false, false, true, true]));
    if cx.thorough {
        for (x, y) in [("a", "b"), ("b", "c"), ("a", "c"), ("c", "z")] {
            for bits in [[false, false, false, true], [false, true, true, false], [false, true, true, true]] {
                values.push((names(&[x, y]), bits.to_vec()));
            }
        }
    }
    let fsets = if cx.thorough {
        vec![names(&[]), names(&["a"]), names(&["a", "b"]), names(&["a", "b", "c"]), names(&["b"]), names(&["z"]), names(&["b", "z"]), names(&["b", "c"])]
    } else {
        vec![names(&[]), names(&["a"]), names(&["a", "b"]), names(&["b"]), names(&["z"]), names(&["b", "z"])]
    };
    let mut maps: Vec<Vec<(String, usize)>> = vec![];
    for k in &key_pool {
        for vi in 0..values.len() {
            maps.push(vec![(k.clone(), vi)]);
        }
    }
    for (i, k1) in key_pool.iter().enumerate() {
        for k2 in key_pool.iter().skip(i + 1) {
            for v1 in 0..values.len() {
                for v2 in 0..values.len() {
                    maps.push(vec![(k1.clone(), v1), (k2.clone(), v2)]);
                }
            }
        }
    }
    for ns in fsets {
        for bits in all_functions(ns.len()) {
            if ns.len() >= 3 && cx.rng.below(8) != 0 {
                continue;
            }
            for kind in 0..3 {
                let x = fn_as(kind, &ns, &bits);
                for m in &maps {
                    if cx.thorough && ns.len() >= 2 && cx.rng.below(4) != 0 {
                        continue;
                    }
                    let map: BTreeMap<String, Val> = m
                        .iter()
                        .map(|(k, vi)| (k.clone(), fn_as(kind, &values[*vi].0, &values[*vi].1)))
                        .collect();
                    let mentioned: BTreeSet<&String> = m.iter().flat_map(|(_, vi)| values[*vi].0.iter()).collect();
                    let nt = m.len() >= 2 || m.iter().any(|(k, _)| !mentioned.contains(k));
                    cx.emit("C08", "subst", &[Arg::F(x.clone()), Arg::M(map)], nt);
                }
            }
        }
    }
    // random: up to 3 keys, replacements of up to 2 variables
    let pool = names(&["a", "b", "c", "d", "e", "z"]);
    for _ in 0..cx.scale * if cx.thorough { 50000 } else { 3000 } {
        let kind = cx.rng.below(3);
        let na = random_subset(&mut cx.rng, &pool, 4);
        let ba = random_bits(&mut cx.rng, na.len());
        let x = fn_as(kind, &na, &ba);
        let nkeys = 1 + cx.rng.below(3);
        let mut map = BTreeMap::new();
        let mut mentioned = BTreeSet::new();
        for _ in 0..nkeys {
            let k = cx.rng.pick(&pool).clone();
            let nv = random_subset(&mut cx.rng, &pool, 2);
            // mostly avoid the documented BDD refusal so that real substitutions dominate
            let nv: Vec<String> = if kind == 2 && cx.rng.below(8) != 0 {
                nv.into_iter().filter(|n| *n != k).collect()
            } else {
                nv
            };
            let bv = random_bits(&mut cx.rng, nv.len());
            for n in &nv {
                mentioned.insert(n.clone());
            }
            map.insert(k, fn_as(kind, &nv, &bv));
        }
        let nt = map.len() >= 2 || map.keys().any(|k| !mentioned.contains(k));
        cx.emit("C08", "subst", &[Arg::F(x), Arg::M(map)], nt);
    }
}

// ================================================================================================
// C09, C10

/// BDDs and tables that are the *direct result* of an operation of the crate (restrict, quantifiers,
/// connectives with declared-only inputs): their observations must be those of a fresh object
pub fn derived_objects(cx: &mut Ctx) -> Vec<Val> {
    use biodivine_boolean_functions::traits::BooleanFunction;
    let mut out = vec![];
    let ns = names(&["a", "b", "c", "d", "e"]);
    for _ in 0..cx.scale * if cx.thorough { 4000 } else { 300 } {
        let k = 3 + cx.rng.below(3);
        let vars: Vec<String> = ns[..k].to_vec();
        let bits = random_bits(&mut cx.rng, k);
        let which = cx.rng.pick(&vars).clone();
        let val = cx.rng.coin();
        let choice = cx.rng.below(6);
        for kind in [1usize, 2] {
            let x = fn_as(kind, &vars, &bits);
            let r: BTreeMap<String, bool> = [(which.clone(), val)].into_iter().collect();
            let vs: BTreeSet<String> = [which.clone()].into_iter().collect();
            // substitutions after which every key is still an input: a swap and a rotation of literals
            let literal = |n: &String| fn_as(kind, &[n.clone()], &[false, true]);
            let swap: Vec<(String, Val)> = vec![(vars[0].clone(), literal(&vars[1])), (vars[1].clone(), literal(&vars[0]))];
            let rot: Vec<(String, Val)> = (0..3).map(|i| (vars[i].clone(), literal(&vars[(i + 1) % 3]))).collect();
            let as_t = |m: &Vec<(String, Val)>| -> BTreeMap<String, TruthTable<String>> { m.iter().filter_map(|(k, v)| match v { Val::T(t) => Some((k.clone(), t.clone())), _ => None }).collect() };
            let as_b = |m: &Vec<(String, Val)>| -> BTreeMap<String, Bdd<String>> { m.iter().filter_map(|(k, v)| match v { Val::B(b) => Some((k.clone(), b.clone())), _ => None }).collect() };
            let derived = std::panic::catch_unwind(std::panic::AssertUnwindSafe(|| match (&x, choice) {
                (Val::T(t), 0) => Val::T(t.restrict(&r)),
                (Val::T(t), 1) => Val::T(t.existential_quantification(vs.clone())),
                (Val::T(t), 2) => Val::T(t.derivative(vs.clone())),
                (Val::T(t), 3) => Val::T(t.substitute(&as_t(&swap))),
                (Val::T(t), 4) => Val::T(t.substitute(&as_t(&rot))),
                (Val::T(t), _) => Val::T(!t),
                (Val::B(b), 0) => Val::B(b.restrict(&r)),
                (Val::B(b), 1) => Val::B(b.existential_quantification(vs.clone())),
                (Val::B(b), 2) => Val::B(b.derivative(vs.clone())),
                (Val::B(b), 3) => Val::B(b.substitute(&as_b(&swap))),
                (Val::B(b), 4) => Val::B(b.substitute(&as_b(&rot))),
                (Val::B(b), _) => Val::B(!b),
                (v, _) => v.clone(),
            }));
            if let Ok(d) = derived {
                out.push(d);
            }
        }
    }
    out
}

pub fn gen_c09(cx: &mut Ctx) {
    for e in flat_nodes(&mut cx.rng, if cx.thorough { 40000 } else { 4000 }).into_iter().chain(idiom_exprs()).chain(clause_pairs().into_iter().step_by(3)) {
        cx.emit("C09", "essential", &[Arg::F(Val::E(e.clone()))], true);
        cx.emit("C09", "essdegree", &[Arg::F(Val::E(e))], true);
    }
    for d in derived_objects(cx) {
        for op in ["inputs", "essential", "degree", "essdegree"] {
            cx.emit("C09", op, &[Arg::F(d.clone())], true);
        }
    }
    for e in shared_exprs().into_iter().chain(shaped_exprs()) {
        for op in ["inputs", "essential", "degree", "essdegree"] {
            cx.emit("C09", op, &[Arg::F(Val::E(e.clone()))], true);
        }
    }
    let pads: Vec<Vec<String>> = vec![names(&[]), names(&["p"]), names(&["0", "p"])];
    for ns in small_name_sets(cx.thorough) {
        for bits in all_functions(ns.len()) {
            if ns.len() >= 4 && cx.rng.below(8) != 0 {
                continue;
            }
            for pad in &pads {
                // declared-only names: the function over ns ∪ pad that ignores pad
                let mut all: Vec<String> = ns.iter().chain(pad.iter()).cloned().collect();
                all.sort();
                let n = all.len();
                let full: Vec<bool> = (0..(1usize << n))
                    .map(|row| {
                        let mut idx = 0usize;
                        for (k, name) in all.iter().enumerate() {
                            if ns.contains(name) {
                                idx = (idx << 1) | ((row >> (n - 1 - k)) & 1);
                            }
                        }
                        bits[idx]
                    })
                    .collect();
                let nt = essential_count(&bits, ns.len()) < n && !is_constant(&bits);
                for kind in 0..3 {
                    let x = fn_as(kind, &all, &full);
                    for op in ["inputs", "essential", "degree", "essdegree"] {
                        cx.emit("C09", op, &[Arg::F(x.clone())], nt);
                    }
                }
            }
        }
    }
    let pool = pool_names();
    for _ in 0..cx.scale * if cx.thorough { 20000 } else { 1000 } {
        let kind = cx.rng.below(3);
        let na = random_subset(&mut cx.rng, &pool, 6);
        let x = if kind == 0 && !na.is_empty() {
            Val::E(random_tree(&mut cx.rng, 4, &na, true, 0))
        } else {
            let ba = random_bits(&mut cx.rng, na.len());
            fn_as(kind, &na, &ba)
        };
        for op in ["inputs", "essential", "degree", "essdegree"] {
            cx.emit("C09", op, &[Arg::F(x.clone())], true);
        }
    }
}

pub fn gen_c10(cx: &mut Ctx) {
    for e in flat_nodes(&mut cx.rng, if cx.thorough { 40000 } else { 4000 }).into_iter().chain(idiom_exprs()).chain(clause_pairs().into_iter().step_by(3)) {
        cx.emit("C10", "enum", &[Arg::F(Val::E(e))], true);
    }
    for ns in small_name_sets(cx.thorough) {
        for bits in all_functions(ns.len()) {
            if ns.len() >= 4 && cx.rng.below(8) != 0 {
                continue;
            }
            let nt = !is_constant(&bits);
            for kind in 0..3 {
                let x = fn_as(kind, &ns, &bits);
                cx.emit("C10", "enum", &[Arg::F(x)], nt);
            }
        }
    }
    for d in derived_objects(cx) {
        cx.emit("C10", "enum", &[Arg::F(d)], true);
    }
    for e in shaped_exprs().into_iter().chain(shared_exprs()) {
        cx.emit("C10", "enum", &[Arg::F(Val::E(e))], true);
    }
    // constants with zero variables
    for b in [false, true] {
        cx.emit("C10", "enum", &[Arg::F(Val::E(cst(b)))], false);
        cx.emit("C10", "enum", &[Arg::F(Val::B(Bdd::mk_const(b)))], false);
        cx.emit("C10", "enum", &[Arg::F(Val::T(TruthTable::from(&cst(b))))], false);
    }
    let pool = pool_names();
    for _ in 0..cx.scale * if cx.thorough { 3000 } else { 300 } {
        let kind = cx.rng.below(3);
        let na = random_subset(&mut cx.rng, &pool, if cx.thorough { 8 } else { 6 });
        let x = if kind == 0 && !na.is_empty() {
            Val::E(random_tree(&mut cx.rng, 4, &na, true, 0))
        } else {
            let ba = random_bits(&mut cx.rng, na.len());
            fn_as(kind, &na, &ba)
        };
        cx.emit("C10", "enum", &[Arg::F(x)], true);
    }
}

// ================================================================================================
// C11

fn has_mixed(e: &E) -> bool {
    // contains both And and Or and a negation above one of them
    fn walk(e: &E, seen: &mut (bool, bool, bool)) {
        match e.node() {
            ExpressionNode::And(es) => {
                seen.0 = true;
                es.iter().for_each(|x| walk(x, seen));
            }
            ExpressionNode::Or(es) => {
                seen.1 = true;
                es.iter().for_each(|x| walk(x, seen));
            }
            ExpressionNode::Not(x) => {
                if matches!(x.node(), ExpressionNode::And(_) | ExpressionNode::Or(_)) {
                    seen.2 = true;
                }
                walk(x, seen);
            }
            _ => {}
        }
    }
    let mut seen = (false, false, false);
    walk(e, &mut seen);
    seen.0 && seen.1 && seen.2
}

fn tree_size(e: &E) -> usize {
    match e.node() {
        ExpressionNode::Not(x) => 1 + tree_size(x),
        ExpressionNode::And(es) | ExpressionNode::Or(es) => 1 + es.iter().map(tree_size).sum::<usize>(),
        _ => 1,
    }
}

fn emit_nf(cx: &mut Ctx, e: &E) {
    let nt = has_mixed(e);
    let a = [Arg::F(Val::E(e.clone()))];
    for op in ["nnf", "cnf", "dnf", "isnnf", "iscnf", "isdnf"] {
        cx.emit("C11", op, &a, nt);
    }
    // the predicates on normal-form shaped inputs
    let guard = std::panic::catch_unwind(std::panic::AssertUnwindSafe(|| (e.to_nnf(), e.to_cnf(), e.to_dnf())));
    if let Ok((n, c, d)) = guard {
        for x in [n, c, d] {
            if tree_size(&x) <= 400 {
                let a = [Arg::F(Val::E(x))];
                for op in ["isnnf", "iscnf", "isdnf"] {
                    cx.emit("C11", op, &a, nt);
                }
            }
        }
    }
}

pub fn gen_c11(cx: &mut Ctx) {
    gen_typed(cx, "C11", "nf", 150);
    let leaves = vec![lit("a"), lit("b"), lit("c"), cst(true)];
    for e in trees_up_to(if cx.thorough { 5 } else { 4 }, &leaves, 3, 0) {
        emit_nf(cx, &e);
    }
    for e in wide_exprs(&mut cx.rng, &names(&["a", "b", "c"]), false) {
        emit_nf(cx, &e);
    }
    for e in shared_exprs().into_iter().chain(shaped_exprs()) {
        emit_nf(cx, &e);
    }
    for e in clause_pairs().into_iter().chain(clause_exprs(&mut cx.rng).into_iter().step_by(3)).chain(idiom_exprs()).chain(flat_nodes(&mut cx.rng, 500)) {
        emit_nf(cx, &e);
    }
    let ns = names(&["a", "b", "c", "x_10"]);
    for _ in 0..cx.scale * if cx.thorough { 40000 } else { 2500 } {
        let depth = 2 + cx.rng.below(if cx.thorough { 5 } else { 4 });
        let consts = cx.rng.below(4) == 0;
        let min_arity = if cx.rng.below(4) == 0 { 0 } else { 1 };
        let e = random_tree(&mut cx.rng, depth, &ns, consts, min_arity);
        if tree_size(&e) > 60 {
            continue;
        }
        emit_nf(cx, &e);
    }
}
