/-! Draft: codec between row indices and Boolean points (faithful to
    src/utils/row_index_to_bool_point.rs and src/table/utils/bool_point_to_row_index.rs). -/

namespace BoolFn

/-- `while row_index > 0 { push (row_index % 2 != 0); row_index /= 2 }` with explicit fuel. -/
def digitsLsb : Nat → Nat → List Bool
  | 0, _ => []
  | fuel + 1, i => if i = 0 then [] else (i % 2 != 0) :: digitsLsb fuel (i / 2)

/-- faithful `row_index_to_bool_point` -/
def rowIndexToPoint (i n : Nat) : List Bool :=
  let ds := digitsLsb i i            -- `i` iterations always suffice (i / 2 < i for i > 0)
  (ds ++ List.replicate (n - ds.length) false).reverse

/-- faithful `boolean_point_to_row_index`: sum over reversed, enumerated digits -/
def pointToRowIndex (p : List Bool) : Nat :=
  (p.reverse.zipIdx.map (fun (b, k) => if b then 2 ^ k else 0)).sum

/-- clean specification: little-endian value -/
def valLsb : List Bool → Nat
  | [] => 0
  | b :: bs => (if b then 1 else 0) + 2 * valLsb bs

theorem digitsLsb_val (fuel i : Nat) (h : i ≤ fuel) : valLsb (digitsLsb fuel i) = i := by
  induction fuel generalizing i with
  | zero => simp [digitsLsb, valLsb]; omega
  | succ f ih =>
    unfold digitsLsb
    split
    · simp [valLsb]; omega
    · rename_i hi
      have : i / 2 ≤ f := by omega
      simp only [valLsb, ih _ this]
      rcases Nat.mod_two_eq_zero_or_one i with h0 | h1
      · simp [h0]; omega
      · simp [h1]; omega

theorem valLsb_append (a b : List Bool) : valLsb (a ++ b) = valLsb a + 2 ^ a.length * valLsb b := by
  induction a with
  | nil => simp [valLsb]
  | cons x xs ih => simp only [List.cons_append, valLsb, ih, List.length_cons, Nat.pow_succ]; grind

theorem valLsb_replicate_false (k : Nat) : valLsb (List.replicate k false) = 0 := by
  induction k with
  | zero => rfl
  | succ k ih => simp [List.replicate, valLsb, ih]

theorem valLsb_lt (p : List Bool) : valLsb p < 2 ^ p.length := by
  induction p with
  | nil => simp [valLsb]
  | cons b bs ih => simp only [valLsb, List.length_cons, Nat.pow_succ]; split <;> omega

/-- the sum-of-powers form equals the little-endian value of the reversed point -/
theorem sum_zipIdx_eq_valLsb (q : List Bool) (k : Nat) :
    ((q.zipIdx k).map (fun (b, j) => if b then 2 ^ j else 0)).sum = 2 ^ k * valLsb q := by
  induction q generalizing k with
  | nil => simp [valLsb]
  | cons b bs ih =>
    simp only [List.zipIdx_cons, List.map_cons, List.sum_cons, ih, valLsb, Nat.pow_succ]
    split <;> grind

theorem pointToRowIndex_eq (p : List Bool) : pointToRowIndex p = valLsb p.reverse := by
  simp [pointToRowIndex, sum_zipIdx_eq_valLsb]

theorem pointToRowIndex_lt (p : List Bool) : pointToRowIndex p < 2 ^ p.length := by
  rw [pointToRowIndex_eq]; simpa using valLsb_lt p.reverse

/-- round trip index → point → index (any width) -/
theorem pointToRowIndex_rowIndexToPoint (i n : Nat) :
    pointToRowIndex (rowIndexToPoint i n) = i := by
  simp [pointToRowIndex_eq, rowIndexToPoint, valLsb_append, valLsb_replicate_false,
    digitsLsb_val i i (Nat.le_refl i)]

theorem digitsLsb_length_le (fuel i n : Nat) (h : i < 2 ^ n) : (digitsLsb fuel i).length ≤ n := by
  induction fuel generalizing i n with
  | zero => simp [digitsLsb]
  | succ f ih =>
    unfold digitsLsb
    split
    · simp
    · rename_i hi
      cases n with
      | zero => simp at h; omega
      | succ m =>
        have : i / 2 < 2 ^ m := by rw [Nat.pow_succ] at h; omega
        simp only [List.length_cons]; have := ih (i / 2) m this; omega

theorem rowIndexToPoint_length (i n : Nat) (h : i < 2 ^ n) : (rowIndexToPoint i n).length = n := by
  have := digitsLsb_length_le i i n h
  simp [rowIndexToPoint]; omega

/-- little-endian values determine equal-length digit lists -/
theorem valLsb_inj : (a b : List Bool) → a.length = b.length → valLsb a = valLsb b → a = b
  | [], [], _, _ => rfl
  | [], _ :: _, h, _ => by simp at h
  | _ :: _, [], h, _ => by simp at h
  | x :: xs, y :: ys, hl, hv => by
    simp only [valLsb] at hv
    simp only [List.length_cons, Nat.add_right_cancel_iff] at hl
    have hxy : x = y := by cases x <;> cases y <;> simp_all <;> omega
    subst hxy
    have : valLsb xs = valLsb ys := by omega
    rw [valLsb_inj xs ys hl this]

theorem pointToRowIndex_inj (a b : List Bool) (hl : a.length = b.length)
    (hv : pointToRowIndex a = pointToRowIndex b) : a = b := by
  rw [pointToRowIndex_eq, pointToRowIndex_eq] at hv
  have := valLsb_inj a.reverse b.reverse (by simp [hl]) hv
  simpa using congrArg List.reverse this

/-- round trip point → index → point -/
theorem rowIndexToPoint_pointToRowIndex (p : List Bool) :
    rowIndexToPoint (pointToRowIndex p) p.length = p :=
  pointToRowIndex_inj _ _ (rowIndexToPoint_length _ _ (pointToRowIndex_lt p))
    (pointToRowIndex_rowIndexToPoint _ _)

#eval rowIndexToPoint 5 4
#eval (List.range 40).all fun i => pointToRowIndex (rowIndexToPoint i 5) == i
#print axioms pointToRowIndex_rowIndexToPoint
end BoolFn
