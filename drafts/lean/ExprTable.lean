/-! Draft: expression → truth table (src/table/traits/from_expression.rs) preserves the function.
    Core Lean only. -/
namespace BoolFn

inductive Expr (α : Type) where
  | lit : α → Expr α
  | const : Bool → Expr α
  | not : Expr α → Expr α
  | and : List (Expr α) → Expr α
  | or : List (Expr α) → Expr α

variable {α : Type} [DecidableEq α]
set_option linter.unusedSectionVars false

/-- `BTreeMap<T,bool>` as an association list; only `get?` is observed -/
abbrev PVal (α : Type) := List (α × Bool)
def PVal.get? (v : PVal α) (x : α) : Option Bool := (v.find? (fun p => p.1 == x)).map (·.2)

namespace Expr
mutual
/-- `evaluate_with_default` -/
def eval (v : PVal α) (d : Bool) : Expr α → Bool
  | lit a => (PVal.get? v a).getD d
  | const b => b
  | not e => !(eval v d e)
  | and es => evalAll v d es
  | or es => evalAny v d es
def evalAll (v : PVal α) (d : Bool) : List (Expr α) → Bool
  | [] => true
  | e :: es => eval v d e && evalAll v d es
def evalAny (v : PVal α) (d : Bool) : List (Expr α) → Bool
  | [] => false
  | e :: es => eval v d e || evalAny v d es
end

mutual
/-- specification: denotation under a total assignment -/
def den (ρ : α → Bool) : Expr α → Bool
  | lit a => ρ a
  | const b => b
  | not e => !(den ρ e)
  | and es => denAll ρ es
  | or es => denAny ρ es
def denAll (ρ : α → Bool) : List (Expr α) → Bool
  | [] => true
  | e :: es => den ρ e && denAll ρ es
def denAny (ρ : α → Bool) : List (Expr α) → Bool
  | [] => false
  | e :: es => den ρ e || denAny ρ es
end

mutual
def vars : Expr α → List α
  | lit a => [a]
  | const _ => []
  | not e => vars e
  | and es => varsL es
  | or es => varsL es
def varsL : List (Expr α) → List α
  | [] => []
  | e :: es => vars e ++ varsL es
end

-- C02 core: evaluation with default is the denotation of the completed valuation
mutual
theorem eval_eq_den (v : PVal α) (d : Bool) :
    (e : Expr α) → eval v d e = den (fun x => (PVal.get? v x).getD d) e
  | lit _ => by simp [eval, den]
  | const _ => by simp [eval, den]
  | not e => by simp [eval, den, eval_eq_den v d e]
  | and es => by simp [eval, den, evalAll_eq v d es]
  | or es => by simp [eval, den, evalAny_eq v d es]
theorem evalAll_eq (v : PVal α) (d : Bool) :
    (es : List (Expr α)) → evalAll v d es = denAll (fun x => (PVal.get? v x).getD d) es
  | [] => rfl
  | e :: es => by simp [evalAll, denAll, eval_eq_den v d e, evalAll_eq v d es]
theorem evalAny_eq (v : PVal α) (d : Bool) :
    (es : List (Expr α)) → evalAny v d es = denAny (fun x => (PVal.get? v x).getD d) es
  | [] => rfl
  | e :: es => by simp [evalAny, denAny, eval_eq_den v d e, evalAny_eq v d es]
end

-- the denotation only looks at the variables of the expression
mutual
theorem den_congr (ρ σ : α → Bool) :
    (e : Expr α) → (∀ x ∈ vars e, ρ x = σ x) → den ρ e = den σ e
  | lit a, h => by simp [den]; exact h a (by simp [vars])
  | const _, _ => rfl
  | not e, h => by simp [den, den_congr ρ σ e (by simpa [vars] using h)]
  | and es, h => by simp [den, denAll_congr ρ σ es (by simpa [vars] using h)]
  | or es, h => by simp [den, denAny_congr ρ σ es (by simpa [vars] using h)]
theorem denAll_congr (ρ σ : α → Bool) :
    (es : List (Expr α)) → (∀ x ∈ varsL es, ρ x = σ x) → denAll ρ es = denAll σ es
  | [], _ => rfl
  | e :: es, h => by
    have h1 : ∀ x ∈ vars e, ρ x = σ x := fun x hx => h x (by simp [varsL, hx])
    have h2 : ∀ x ∈ varsL es, ρ x = σ x := fun x hx => h x (by simp [varsL, hx])
    simp [denAll, den_congr ρ σ e h1, denAll_congr ρ σ es h2]
theorem denAny_congr (ρ σ : α → Bool) :
    (es : List (Expr α)) → (∀ x ∈ varsL es, ρ x = σ x) → denAny ρ es = denAny σ es
  | [], _ => rfl
  | e :: es, h => by
    have h1 : ∀ x ∈ vars e, ρ x = σ x := fun x hx => h x (by simp [varsL, hx])
    have h2 : ∀ x ∈ varsL es, ρ x = σ x := fun x hx => h x (by simp [varsL, hx])
    simp [denAny, den_congr ρ σ e h1, denAny_congr ρ σ es h2]
end
end Expr


/-! ### the power set of valuations and the row index of a valuation -/

/-- `generate_power_set_rec`, with the literal vector reversed so that `pop` is the head;
    the `true` branch is explored first, as in the source. -/
def powerSetRev : List α → PVal α → List (PVal α)
  | [], cur => [cur]
  | x :: xs, cur => powerSetRev xs ((x, true) :: cur) ++ powerSetRev xs ((x, false) :: cur)

def powerSet (lits : List α) : List (PVal α) := powerSetRev lits.reverse []

/-- `values_to_row_index` (default false): Σ 2^(len-i-1) over the inputs that are true -/
def valuesToRowIndex : List α → PVal α → Nat
  | [], _ => 0
  | x :: xs, v => (if (PVal.get? v x).getD false then 2 ^ xs.length else 0) + valuesToRowIndex xs v

/-- most-significant-first value of a point -/
def valMsb : List Bool → Nat
  | [] => 0
  | b :: bs => (if b then 2 ^ bs.length else 0) + valMsb bs

theorem valuesToRowIndex_eq (lits : List α) (v : PVal α) :
    valuesToRowIndex lits v = valMsb (lits.map fun x => (PVal.get? v x).getD false) := by
  induction lits with
  | nil => rfl
  | cons x xs ih => simp [valuesToRowIndex, valMsb, ih]

theorem valMsb_lt (p : List Bool) : valMsb p < 2 ^ p.length := by
  induction p with
  | nil => simp [valMsb]
  | cons b bs ih => simp only [valMsb, List.length_cons, Nat.pow_succ]; split <;> omega

theorem valMsb_inj : (a b : List Bool) → a.length = b.length → valMsb a = valMsb b → a = b
  | [], [], _, _ => rfl
  | [], _ :: _, h, _ => by simp at h
  | _ :: _, [], h, _ => by simp at h
  | x :: xs, y :: ys, hl, hv => by
    simp only [List.length_cons, Nat.add_right_cancel_iff] at hl
    simp only [valMsb] at hv
    have hx := valMsb_lt xs
    have hy := valMsb_lt ys
    rw [hl] at hx hv
    have hxy : x = y := by
      cases x <;> cases y <;> simp_all <;> omega
    subst hxy
    have : valMsb xs = valMsb ys := by split at hv <;> omega
    rw [valMsb_inj xs ys hl this]

/-- a valuation agrees with an assignment on a list of names -/
def Agrees (v : PVal α) (ρ : α → Bool) (xs : List α) : Prop :=
  ∀ x ∈ xs, PVal.get? v x = some (ρ x)

theorem get?_cons_self (x : α) (b : Bool) (v : PVal α) : PVal.get? ((x, b) :: v) x = some b := by
  simp [PVal.get?, List.find?]

theorem get?_cons_ne (x y : α) (b : Bool) (v : PVal α) (h : x ≠ y) :
    PVal.get? ((x, b) :: v) y = PVal.get? v y := by
  have hb : (x == y) = false := by simp [h]
  simp [PVal.get?, List.find?, hb]

/-- every assignment of the (duplicate-free) names is represented in the power set -/
theorem powerSetRev_complete (ρ : α → Bool) :
    (xs : List α) → xs.Nodup → (cur : PVal α) → (done : List α) → Agrees cur ρ done →
      (∀ x ∈ xs, x ∉ done) → ∃ v ∈ powerSetRev xs cur, Agrees v ρ (xs ++ done)
  | [], _, cur, done, hcur, _ => ⟨cur, by simp [powerSetRev], by simpa using hcur⟩
  | x :: xs, hnd, cur, done, hcur, hfresh => by
    have hnd' := (List.nodup_cons.mp hnd)
    have hx : x ∉ done := hfresh x (by simp)
    have hcur' : Agrees ((x, ρ x) :: cur) ρ (x :: done) := by
      intro y hy
      rcases List.mem_cons.mp hy with rfl | hy
      · exact get?_cons_self _ _ _
      · have : x ≠ y := fun h => hx (h ▸ hy)
        rw [get?_cons_ne _ _ _ _ this]; exact hcur y hy
    have hfresh' : ∀ y ∈ xs, y ∉ x :: done := by
      intro y hy hmem
      rcases List.mem_cons.mp hmem with rfl | hmem
      · exact hnd'.1 hy
      · exact hfresh y (by simp [hy]) hmem
    obtain ⟨v, hv, hag⟩ := powerSetRev_complete ρ xs hnd'.2 ((x, ρ x) :: cur) (x :: done) hcur' hfresh'
    refine ⟨v, ?_, ?_⟩
    · simp only [powerSetRev, List.mem_append]
      cases hρ : ρ x
      · right; simpa [hρ] using hv
      · left; simpa [hρ] using hv
    · intro y hy
      apply hag
      simp only [List.mem_append, List.mem_cons] at hy ⊢
      rcases hy with (rfl | hy) | hy
      · right; left; rfl
      · left; exact hy
      · right; right; exact hy

theorem powerSet_complete (ρ : α → Bool) (lits : List α) (h : lits.Nodup) :
    ∃ v ∈ powerSet lits, Agrees v ρ lits := by
  obtain ⟨v, hv, hag⟩ := powerSetRev_complete ρ lits.reverse (by simpa [List.Nodup, List.pairwise_reverse, ne_comm] using h) [] []
    (by intro x hx; simp at hx) (by intro x _ hx; simp at hx)
  exact ⟨v, hv, fun x hx => hag x (by simp [hx])⟩

/-! ### the conversion -/

structure Table (α : Type) where
  inputs : List α
  outputs : List Bool

/-- `From<&Expression>`: `lits` is the sorted, duplicate-free `gather_literals()` -/
def exprToTableWith (lits : List α) (e : Expr α) : Table α :=
  let outputs := (powerSet lits).foldl
    (fun out opt => out.set (valuesToRowIndex lits opt) (e.eval opt false))
    (List.replicate (2 ^ lits.length) false)
  ⟨lits, outputs⟩

/-- table denotation: the output at the row index of the point `inputs.map ρ` -/
def Table.den (ρ : α → Bool) (t : Table α) : Option Bool :=
  t.outputs[valMsb (t.inputs.map ρ)]?

theorem foldl_set_length (f : PVal α → Nat) (g : PVal α → Bool) (opts : List (PVal α)) (init : List Bool) :
    (opts.foldl (fun out opt => out.set (f opt) (g opt)) init).length = init.length := by
  induction opts generalizing init with
  | nil => rfl
  | cons o os ih => simp [List.foldl, ih]

/-- if every write to index `i` writes `b`, and some write happens there, the final value is `b` -/
theorem foldl_set_get (f : PVal α → Nat) (g : PVal α → Bool) (i : Nat) (b : Bool) :
    (opts : List (PVal α)) → (init : List Bool) → i < init.length →
    (∀ o ∈ opts, f o = i → g o = b) → ((∃ o ∈ opts, f o = i) ∨ init[i]? = some b) →
    (opts.foldl (fun out opt => out.set (f opt) (g opt)) init)[i]? = some b
  | [], init, _, _, h => by
    rcases h with ⟨o, ho, _⟩ | h
    · simp at ho
    · simpa using h
  | o :: os, init, hi, hall, h => by
    simp only [List.foldl]
    apply foldl_set_get f g i b os (init.set (f o) (g o)) (by simpa using hi)
      (fun o' ho' => hall o' (by simp [ho']))
    by_cases hfo : f o = i
    · right
      have := hall o (by simp) hfo
      simp [hfo, this, hi]
    · rcases h with ⟨o', ho', hf'⟩ | h
      · rcases List.mem_cons.mp ho' with rfl | ho'
        · exact absurd hf' hfo
        · left; exact ⟨o', ho', hf'⟩
      · right
        rw [List.getElem?_set_ne hfo]; exact h

theorem agrees_map (v : PVal α) (ρ : α → Bool) (xs : List α) (h : Agrees v ρ xs) :
    (xs.map fun x => (PVal.get? v x).getD false) = xs.map ρ := by
  apply List.map_congr_left
  intro x hx
  simp [h x hx]

/-- **C01, direction E→T**: the table built from an expression denotes the same function
    (for any duplicate-free literal list covering the variables), has `2^n` outputs, and the
    lookup never falls outside the table. -/
theorem exprToTable_den (lits : List α) (hnd : lits.Nodup) (e : Expr α)
    (hcov : ∀ x ∈ e.vars, x ∈ lits) (ρ : α → Bool) :
    (exprToTableWith lits e).den ρ = some (e.den ρ) ∧
    (exprToTableWith lits e).outputs.length = 2 ^ lits.length := by
  constructor
  · simp only [exprToTableWith, Table.den]
    obtain ⟨v, hv, hag⟩ := powerSet_complete ρ lits hnd
    apply foldl_set_get
    · simpa using (by simpa using valMsb_lt (lits.map ρ) : valMsb (lits.map ρ) < 2 ^ lits.length)
    · -- every valuation written at this row evaluates like ρ
      intro o _ hidx
      rw [Expr.eval_eq_den]
      apply Expr.den_congr
      intro x hx
      have hxl := hcov x hx
      -- the two points have equal value, hence are equal
      rw [valuesToRowIndex_eq] at hidx
      have hpts := valMsb_inj _ _ (by simp) hidx
      have := List.map_inj_left.mp hpts x hxl
      simpa using this
    · left
      refine ⟨v, hv, ?_⟩
      rw [valuesToRowIndex_eq, agrees_map v ρ lits hag]
  · simp [exprToTableWith, foldl_set_length]

#print axioms exprToTable_den
end BoolFn
