/-! Draft: faithful model of src/parser (tokenizer + precedence parser) on `List Char`,
    plus the declarative reference lexer. Definitions only; `#eval`s at the end. -/
namespace BoolFn

inductive Expr (α : Type) where
  | lit : α → Expr α
  | const : Bool → Expr α
  | not : Expr α → Expr α
  | and : List (Expr α) → Expr α
  | or : List (Expr α) → Expr α
deriving Repr, BEq, Inhabited

inductive Tok where
  | and | or | not | tt | ff
  | lit (name : List Char)
  | paren (inner : List Tok)
deriving Repr, BEq, Inhabited

inductive Kind where
  | and | or | not | tt | ff | parenStart | parenEnd | braceStart | braceEnd
deriving Repr, BEq, DecidableEq

structure Pat where
  text : List Char
  kind : Kind
  identLike : Bool       -- LITERAL_IDENTIFIER.is_match(pattern): needs the boundary lookahead

/-- would be `Generated.patterns`: ALL_TOKEN_PATTERNS_FROM_LONGEST, in order -/
def patterns : List Pat := [
  ⟨"false".toList, .ff, true⟩, ⟨"true".toList, .tt, true⟩, ⟨"and".toList, .and, true⟩,
  ⟨"not".toList, .not, true⟩, ⟨"&&".toList, .and, false⟩, ⟨"||".toList, .or, false⟩,
  ⟨"or".toList, .or, true⟩, ⟨"&".toList, .and, false⟩, ⟨"∧".toList, .and, false⟩,
  ⟨"^".toList, .and, false⟩, ⟨"*".toList, .and, false⟩, ⟨"|".toList, .or, false⟩,
  ⟨"∨".toList, .or, false⟩, ⟨"v".toList, .or, true⟩, ⟨"+".toList, .or, false⟩,
  ⟨"~".toList, .not, false⟩, ⟨"!".toList, .not, false⟩, ⟨"¬".toList, .not, false⟩,
  ⟨"f".toList, .ff, true⟩, ⟨"0".toList, .ff, true⟩, ⟨"t".toList, .tt, true⟩,
  ⟨"1".toList, .tt, true⟩, ⟨"{".toList, .braceStart, false⟩, ⟨"}".toList, .braceEnd, false⟩,
  ⟨"(".toList, .parenStart, false⟩, ⟨")".toList, .parenEnd, false⟩ ]
def takeSize : Nat := 6

def isIdentChar (c : Char) : Bool := c == '-' || c == '_' || c.isAlphanum
/-- Rust `char::is_whitespace` (Unicode White_Space) -/
def isWs (c : Char) : Bool :=
  let n := c.toNat
  (0x9 ≤ n && n ≤ 0xD) || n == 0x20 || n == 0x85 || n == 0xA0 || n == 0x1680 ||
  (0x2000 ≤ n && n ≤ 0x200A) || n == 0x2028 || n == 0x2029 || n == 0x202F || n == 0x205F || n == 0x3000
/-- regex `(?i)` on one pattern character: ASCII case, plus U+017F for `s` -/
def foldEq (p c : Char) : Bool := c == p || c == p.toUpper || (p == 's' && c.toNat == 0x17F)

def prefixFold : List Char → List Char → Bool
  | [], _ => true
  | _ :: _, [] => false
  | p :: ps, c :: cs => foldEq p c && prefixFold ps cs

def matchPat (buf : List Char) (p : Pat) : Bool :=
  prefixFold p.text buf &&
  (!p.identLike || match buf.drop p.text.length with | [] => true | c :: _ => !isIdentChar c)

def firstMatch (buf : List Char) : Option Pat := patterns.find? (matchPat buf)

inductive TokErr where
  | unexpectedClosingParenthesis | missingClosingParenthesis | unexpectedClosingCurlyBrace
  | missingClosingCurlyBrace | emptyLiteralName | unknownSymbol | outOfFuel
deriving Repr, BEq

def trimWs : List Char → List Char
  | [] => []
  | c :: cs => if isWs c then trimWs cs else c :: cs

def spanIdent : List Char → List Char × List Char
  | [] => ([], [])
  | c :: cs => if isIdentChar c then let (a, b) := spanIdent cs; (c :: a, b) else ([], c :: cs)

/-- `consume_until_brace` after the opening brace: name and rest after `}` -/
def untilBrace : List Char → Option (List Char × List Char)
  | [] => none
  | c :: cs => if c == '}' then some ([], cs) else (untilBrace cs).map fun (a, b) => (c :: a, b)

/-- `tokenize_level`; `acc` is `result`, returned with the unconsumed input (for nested levels). -/
def tokenizeLevel : Nat → List Char → Bool → List Tok → Except TokErr (List Tok × List Char)
  | 0, _, _, _ => .error .outOfFuel
  | fuel + 1, inp, top, acc =>
    match trimWs inp with
    | [] => if top then .ok (acc, []) else .error .missingClosingParenthesis
    | inp' =>
      match firstMatch (inp'.take takeSize) with
      | none =>
        let (name, rest) := spanIdent inp'
        if name.isEmpty then .error .unknownSymbol
        else tokenizeLevel fuel rest top (acc ++ [.lit name])
      | some p =>
        let simple (t : Tok) := tokenizeLevel fuel (inp'.drop p.text.length) top (acc ++ [t])
        match p.kind with
        | .and => simple .and
        | .or => simple .or
        | .not => simple .not
        | .tt => simple .tt
        | .ff => simple .ff
        | .parenStart =>
          match tokenizeLevel fuel (inp'.drop 1) false [] with
          | .error e => .error e
          | .ok (inner, rest) => tokenizeLevel fuel rest top (acc ++ [.paren inner])
        | .parenEnd =>
          if top then .error .unexpectedClosingParenthesis else .ok (acc, inp'.drop 1)
        | .braceStart =>
          match untilBrace (inp'.drop 1) with
          | none => .error .missingClosingCurlyBrace
          | some (name, rest) =>
            if name.isEmpty then .error .emptyLiteralName
            else tokenizeLevel fuel rest top (acc ++ [.lit name])
        | .braceEnd => .error .unexpectedClosingCurlyBrace

def tokenize (s : List Char) : Except TokErr (List Tok) :=
  (tokenizeLevel (s.length + 1) s true []).map (·.1)

/-! parse.rs -/
inductive ParseErr where
  | emptySideOfOperator | unexpectedLiteralsGroup | tok (e : TokErr) | unreachable
deriving Repr, BEq

def splitOnTok (sep : Tok) : List Tok → List (List Tok)
  | [] => [[]]
  | t :: ts => if t == sep then [] :: splitOnTok sep ts
               else match splitOnTok sep ts with
                    | [] => [[t]]           -- impossible
                    | g :: gs => (t :: g) :: gs

mutual
def parseTokensF : Nat → List Tok → Except ParseErr (Expr String)
  | 0, _ => .error .unreachable
  | fuel + 1, ts =>
    match (splitOnTok .or ts).mapM (parseAndF fuel) with
    | .error e => .error e
    | .ok [] => .error .emptySideOfOperator
    | .ok [e] => .ok e
    | .ok es => .ok (.or es)
def parseAndF : Nat → List Tok → Except ParseErr (Expr String)
  | 0, _ => .error .unreachable
  | fuel + 1, ts =>
    match (splitOnTok .and ts).mapM (parseTermF fuel) with
    | .error e => .error e
    | .ok [] => .error .emptySideOfOperator
    | .ok [e] => .ok e
    | .ok es => .ok (.and es)
def parseTermF : Nat → List Tok → Except ParseErr (Expr String)
  | 0, _ => .error .unreachable
  | _ + 1, [] => .error .emptySideOfOperator
  | fuel + 1, .not :: rest => (parseTermF fuel rest).map .not
  | _ + 1, _ :: _ :: _ => .error .unexpectedLiteralsGroup
  | _ + 1, [.tt] => .ok (.const true)
  | _ + 1, [.ff] => .ok (.const false)
  | _ + 1, [.lit n] => .ok (.lit (String.ofList n))
  | fuel + 1, [.paren inner] => parseTokensF fuel inner
  | _ + 1, [_] => .error .unreachable
end

mutual
def tokSize : Tok → Nat
  | .paren ts => 1 + toksSize ts
  | _ => 1
def toksSize : List Tok → Nat
  | [] => 0
  | t :: ts => tokSize t + toksSize ts
end

def parse (s : String) : Except ParseErr (Expr String) :=
  match tokenize s.toList with
  | .error e => .error (.tok e)
  | .ok ts => parseTokensF (3 * toksSize ts + 3) ts

/-! Display -/
mutual
def printE : Expr String → String
  | .const b => if b then "true" else "false"
  | .lit n => n
  | .not e => "!(" ++ printE e ++ ")"
  | .and es => "(" ++ printL " & " es ++ ")"
  | .or es => "(" ++ printL " | " es ++ ")"
def printL (sep : String) : List (Expr String) → String
  | [] => ""
  | [e] => printE e
  | e :: es => printE e ++ sep ++ printL sep es
end

def show' (s : String) : String := match parse s with | .ok e => printE e | .error e => s!"ERR {repr e}"
#eval show' "tRuE&x"
#eval show' "{a b}|c"
#eval show' "falſe"
#eval show' "a | b | a & b & !c"
#eval show' "a ∧ b v c"
#eval show' "1a ^ (x & y)"
#eval show' "((a)"
#eval show' "a b"
#eval show' "a &"
#eval show' "{}"
#eval show' "nota & not a"
#eval show' ""
#eval show' "@"
#eval show' "F | 0 | False | (T & 1 & True)"
end BoolFn
